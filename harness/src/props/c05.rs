//! C05 — predecessor trees and shortest paths from BFS and Dijkstra.

use crate::{
    ensure,
    gen::{self, WDg},
    model::Model,
    props::c03::{check_sequence, superseded_pops},
    reprs::{self, Unweighted},
    runner::{Build, Leg, LegKind, Obs, Prop, Tier, Verdict},
};
use graaf::{
    AdjacencyList, AdjacencyMap, AdjacencyMatrix, BfsPred, DijkstraPred, EdgeList, Order,
    OutNeighbors,
};
use proptest::prelude::*;
use serde::{Deserialize, Serialize};
use std::collections::{BTreeMap, BTreeSet};

#[derive(Clone, Debug, Serialize, Deserialize)]
pub struct Case {
    pub g: WDg<usize>,
    pub sources: Vec<usize>,
    pub targets: Vec<usize>,
    #[serde(default)]
    pub family: String,
}

/// dist: reference distance (None = unreachable); w(u,v): arc weight.
fn check_tree(
    what: &str,
    pred: &[Option<usize>],
    n: usize,
    sources: &[usize],
    dist: &BTreeMap<usize, Option<i128>>,
    w: &dyn Fn(usize, usize) -> Option<i128>,
) -> Verdict {
    ensure!(pred.len() == n, "{what} has {} entries for order {n}", pred.len());
    for v in 0..n {
        let p = pred[v];
        if sources.contains(&v) {
            ensure!(p.is_none(), "{what}: source {v} has predecessor {p:?}");
            continue;
        }
        match dist[&v] {
            None => ensure!(p.is_none(), "{what}: unreachable vertex {v} has predecessor {p:?}"),
            Some(dv) => {
                let Some(u) = p else {
                    return Err(format!(
                        "{what}: reachable non-source vertex {v} (distance {dv}) has no predecessor"
                    ));
                };
                let Some(wt) = w(u, v) else {
                    return Err(format!("{what}: predecessor {u} of {v} is not joined to it by an arc"));
                };
                let Some(du) = dist.get(&u).copied().flatten() else {
                    return Err(format!("{what}: predecessor {u} of {v} is itself unreachable"));
                };
                ensure!(
                    du + wt == dv,
                    "{what}: predecessor {u} of {v} is not on a shortest path: dist({u}) + w = {du} + {wt} != dist({v}) = {dv}"
                );
            }
        }
    }
    Ok(())
}

fn check_path(
    what: &str,
    path: Option<Vec<usize>>,
    sources: &[usize],
    targets: &BTreeSet<usize>,
    dist: &BTreeMap<usize, Option<i128>>,
    weight: &dyn Fn(&[usize]) -> Option<i128>,
) -> Verdict {
    let best = targets
        .iter()
        .filter_map(|t| dist.get(t).copied().flatten())
        .min();
    match (path, best) {
        (None, None) => Ok(()),
        (None, Some(b)) => Err(format!(
            "{what} returned None although a target is reachable at distance {b} (sources {sources:?}, targets {targets:?})"
        )),
        (Some(p), None) => Err(format!(
            "{what} returned {p:?} although no reachable vertex satisfies the predicate (targets {targets:?})"
        )),
        (Some(p), Some(b)) => {
            ensure!(!p.is_empty(), "{what} returned an empty path");
            ensure!(
                sources.contains(&p[0]),
                "{what} returned {p:?}, which does not start at a source ({sources:?})"
            );
            ensure!(
                targets.contains(p.last().unwrap()),
                "{what} returned {p:?}, which does not end at a target ({targets:?})"
            );
            let Some(wt) = weight(&p) else {
                return Err(format!("{what} returned {p:?}, which is not a walk in the digraph"));
            };
            ensure!(
                wt == b,
                "{what} returned {p:?} of length/weight {wt}; the minimum over all targets is {b}"
            );
            Ok(())
        }
    }
}


/// An analysis method called on an instance from which `k` steps were already
/// taken with `next()`.  The property speaks about fresh instances; for a used
/// one only what both readings ("continue from here" and "start over") have in
/// common is demanded: every predecessor reported is a valid shortest-path
/// predecessor, every reachable non-source vertex that had not been yielded yet
/// has one, and shortest_path() finds a target exactly when one is still ahead.
fn check_used_tree(
    what: &str,
    pred: &[Option<usize>],
    n: usize,
    sources: &[usize],
    yielded: &BTreeSet<usize>,
    dist: &BTreeMap<usize, Option<i128>>,
    w: &dyn Fn(usize, usize) -> Option<i128>,
) -> Verdict {
    ensure!(pred.len() == n, "{what} has {} entries for order {n}", pred.len());
    for v in 0..n {
        match pred[v] {
            Some(u) => {
                ensure!(!sources.contains(&v), "{what}: source {v} has predecessor {u}");
                let Some(dv) = dist[&v] else {
                    return Err(format!("{what}: unreachable vertex {v} has predecessor {u}"));
                };
                let Some(wt) = w(u, v) else {
                    return Err(format!("{what}: predecessor {u} of {v} is not joined to it by an arc"));
                };
                let Some(du) = dist.get(&u).copied().flatten() else {
                    return Err(format!("{what}: predecessor {u} of {v} is itself unreachable"));
                };
                ensure!(du + wt == dv, "{what}: predecessor {u} of {v} is not on a shortest path: {du} + {wt} != {dv}");
            }
            None => ensure!(
                sources.contains(&v) || dist[&v].is_none() || yielded.contains(&v),
                "{what}: reachable non-source vertex {v}, not yielded before the call, has no predecessor (yielded before: {yielded:?})"
            ),
        }
    }
    Ok(())
}

fn check_used_path(
    what: &str,
    path: Option<Vec<usize>>,
    targets: &BTreeSet<usize>,
    yielded: &BTreeSet<usize>,
    dist: &BTreeMap<usize, Option<i128>>,
    weight: &dyn Fn(&[usize]) -> Option<i128>,
) -> Verdict {
    let ahead = targets.iter().filter(|t| !yielded.contains(t)).filter_map(|t| dist.get(t).copied().flatten()).min();
    let all = targets.iter().filter_map(|t| dist.get(t).copied().flatten()).min();
    match path {
        None => ensure!(
            ahead.is_none(),
            "{what} returned None although a target not yet yielded is reachable at distance {} (yielded before: {yielded:?}, targets {targets:?})",
            ahead.unwrap()
        ),
        Some(p) => {
            ensure!(!p.is_empty(), "{what} returned an empty path");
            let t = *p.last().unwrap();
            ensure!(targets.contains(&t), "{what} returned {p:?}, which does not end at a target ({targets:?})");
            ensure!(p.len() == 1 || weight(&p).is_some(), "{what} returned {p:?}, which is not a walk in the digraph");
            let dt = dist.get(&t).copied().flatten();
            ensure!(
                dt.is_some() && (dt == ahead || dt == all),
                "{what} returned {p:?}: its target is at distance {dt:?}, the nearest target still ahead at {ahead:?}, the nearest of all at {all:?}"
            );
        }
    }
    Ok(())
}

fn used_splits(len: usize) -> Vec<usize> {
    let mut ks = vec![1, 2, len / 2, len.saturating_sub(1), len];
    ks.retain(|&k| k >= 1 && k <= len);
    ks.sort_unstable();
    ks.dedup();
    ks
}

fn check_bfs_pred<D: Order + OutNeighbors + Clone>(
    g: &D,
    name: &str,
    m: &Model<()>,
    sources: &[usize],
    targets: &BTreeSet<usize>,
    mk: &dyn Fn(&gen::Dg) -> D,
) -> Verdict {
    let n = m.order();
    let hops = m.hops(sources);
    let dist: BTreeMap<usize, Option<i128>> = (0..n)
        .map(|v| (v, hops.get(&v).map(|&d| d as i128)))
        .collect();
    let reachable: BTreeSet<usize> = hops.keys().copied().collect();
    let rd = |v: usize| dist[&v].unwrap_or(-1);
    let w = |u: usize, v: usize| m.has(u, v).then_some(1_i128);

    let items: Vec<(Option<usize>, usize)> = BfsPred::new(g, sources.iter().copied()).collect();
    let seq: Vec<usize> = items.iter().map(|&(_, v)| v).collect();
    check_sequence(&format!("BfsPred<{name}>"), &seq, &reachable, &rd)?;
    let mut from_items = vec![None; n];
    for &(p, v) in &items {
        from_items[v] = p;
    }
    check_tree(&format!("BfsPred<{name}> items"), &from_items, n, sources, &dist, &w)?;

    let lazy = || sources.iter().copied().filter(|_| true);
    let items_l: Vec<(Option<usize>, usize)> = BfsPred::new(g, lazy()).collect();
    ensure!(items_l == items, "BfsPred<{name}>: sources passed through `filter` give {items_l:?}, passed directly {items:?}");
    {
        let q = gen::shared_queue(sources);
        let items_s: Vec<(Option<usize>, usize)> = BfsPred::new(g, gen::shared_cursor(&q)).collect();
        ensure!(items_s == items, "BfsPred<{name}>: sources from a draining iterator whose clones share their cursor give {items_s:?}, passed directly {items:?}");
    }
    let h = gen::hint_pick(sources.len(), n + m.size());
    let items_h: Vec<(Option<usize>, usize)> = BfsPred::new(g, gen::hinted(sources.to_vec(), h)).collect();
    ensure!(items_h == items, "BfsPred<{name}>: sources from an iterator with size_hint {h:?} give {items_h:?}, passed directly {items:?}");
    let tree = BfsPred::new(g, sources.iter().copied()).predecessors();
    check_tree(&format!("BfsPred<{name}>::predecessors()"), &tree.pred, n, sources, &dist, &w)?;

    let path = BfsPred::new(g, sources.iter().copied()).shortest_path(|v| targets.contains(&v));
    check_path(
        &format!("BfsPred<{name}>::shortest_path"),
        path,
        sources,
        targets,
        &dist,
        &|p: &[usize]| m.walk_weight(p),
    )?;


    if n <= 40 {
        // clone / clone_from, also onto an iterator over a digraph of another order
        crate::props::c02::clone_consistency(&format!("BfsPred<{name}>"), || BfsPred::new(g, sources.iter().copied()), items.len())?;
        for alt in [mk(&gen::path_dg(n / 2)), mk(&gen::path_dg(n + 3)), g.clone()] {
            crate::props::c02::clone_from_consistency(&format!("BfsPred<{name}>"), || BfsPred::new(g, sources.iter().copied()), || BfsPred::new(&alt, std::iter::once(0)), items.len())?;
        }
    }
    // analysis methods on an instance that was already stepped
    if n <= 40 {
        for k in used_splits(items.len()) {
            let mut it = BfsPred::new(g, sources.iter().copied());
            let yielded: BTreeSet<usize> = it.by_ref().take(k).map(|(_, v)| v).collect();
            let tree = it.predecessors();
            check_used_tree(&format!("BfsPred<{name}>: predecessors() after {k} next() calls"), &tree.pred, n, sources, &yielded, &dist, &w)?;
            let mut it = BfsPred::new(g, sources.iter().copied());
            for _ in 0..k {
                let _ = it.next();
            }
            let path = it.shortest_path(|v| targets.contains(&v));
            check_used_path(
                &format!("BfsPred<{name}>: shortest_path after {k} next() calls"),
                path,
                targets,
                &yielded,
                &dist,
                &|p: &[usize]| m.walk_weight(p),
            )?;
        }
    }

    let cycles = BfsPred::new(g, sources.iter().copied()).cycles();
    for c in &cycles {
        let what = format!("BfsPred<{name}>::cycles()");
        ensure!(c.len() >= 2, "{what} returned {c:?}: fewer than two vertices");
        let set: BTreeSet<usize> = c.iter().copied().collect();
        ensure!(set.len() == c.len(), "{what} returned {c:?}: a vertex repeats");
        for i in 0..c.len() {
            let (u, v) = (c[i], c[(i + 1) % c.len()]);
            ensure!(
                u < n && v < n && m.has(u, v),
                "{what} returned {c:?}: {u} -> {v} is not an arc"
            );
        }
    }
    Ok(())
}

pub struct C05;

impl Prop for C05 {
    type Case = Case;
    const ID: &'static str = "C05";
    const NUM: u64 = 5;
    const RULE: &'static str = "weighted digraphs as in C03 (order 1..12 quick / 1..40 thorough) with distinct sources and a generated target subset T (empty, singleton, several, containing a source, unreachable only); BfsPred is run on the arc set in all five representations, DijkstraPred on AdjacencyListWeighted<usize>; enum leg: all digraphs of order <=3 with weights {1,2} x source lists x target subsets. About one random case in 25 has a large order (17..140, weighted towards 63..66, 96, 127..130, 140; at most 700 arcs). Sources are also passed through `filter` and an iterator with another honest size_hint shape; up to order 40 predecessors() and shortest_path() are also called after 1, 2, len/2, len-1, len next() calls (reported predecessors must be valid, every reachable non-source vertex not yet yielded must have one, a target must be found exactly when one is still ahead). Non-trivial = T holds >=2 reachable vertices at different distances, or a source is a target, or a superseded heap entry is popped before the last vertex settles; distinct = distinct serialised case.";
    const ASSUMPTIONS: &'static [&'static str] = &[
        "which of several shortest paths / predecessors is returned is free",
        "cycles(): only soundness (every returned sequence is an elementary cycle), completeness is disclaimed by the documentation",
    ];

    fn legs(tier: Tier) -> Vec<Leg> {
        vec![
            Leg {
                name: "random",
                kind: LegKind::Random {
                    cases: tier.pick(30000, 250000),
                },
                workers: 16,
                build: Build::Normal,
            },
            Leg {
                name: "enum",
                kind: LegKind::Enumerated {
                    count: 3_u64.pow(6) * 10 * 8 + 9 * 5 * 4,
                },
                workers: 8,
                build: Build::Normal,
            },
            Leg {
                name: "huge",
                kind: LegKind::Random {
                    cases: tier.pick(3, 30),
                },
                workers: 16,
                build: Build::Normal,
            },
        ]
    }

    fn strategy(leg: &str, tier: Tier) -> BoxedStrategy<Case> {
        if leg == "huge" {
            return (gen::huge_wusize(3100), gen::raw_sources(), any::<u64>(), any::<u8>(), any::<u16>())
                .prop_map(|((g, family), (raw, class), bits, tclass, pick)| {
                    let sources = gen::sources_from(&raw, class, g.order);
                    let mut targets = gen::subset_from(bits, tclass, pick, g.order);
                    // far targets: the last vertices and one in the middle
                    targets.push(g.order - 1);
                    targets.push(g.order / 2);
                    targets.sort_unstable();
                    targets.dedup();
                    Case { g, sources, targets, family }
                })
                .boxed();
        }
        (
            gen::weighted_usize_big(tier.pick(12, 40)),
            gen::raw_sources(),
            any::<u64>(),
            any::<u8>(),
            any::<u16>(),
        )
            .prop_map(|((g, family), (raw, class), bits, tclass, pick)| {
                let sources = gen::sources_from(&raw, class, g.order);
                let mut targets = gen::subset_from(bits, tclass, pick, g.order);
                if tclass % 8 == 7 {
                    if let Some(&s) = sources.first() {
                        if !targets.contains(&s) {
                            targets.push(s);
                        }
                    }
                }
                Case {
                    g,
                    sources,
                    targets,
                    family,
                }
            })
            .boxed()
    }

    fn enum_case(_leg: &str, _tier: Tier, mut idx: u64) -> Option<Case> {
        use crate::props::c03::{nth_weighted, SOURCE_LISTS_3};
        let pal = [1, 2];
        let b3 = 3_u64.pow(6) * 10 * 8;
        if idx < b3 {
            let t = idx % 8;
            let s = (idx / 8) % 10;
            let g = idx / 80;
            return Some(Case {
                g: nth_weighted(3, g, &pal),
                sources: SOURCE_LISTS_3[s as usize].to_vec(),
                targets: (0..3).filter(|i| t >> i & 1 == 1).collect(),
                family: "enum".into(),
            });
        }
        idx -= b3;
        let l2: [&[usize]; 5] = [&[], &[0], &[1], &[0, 1], &[1, 0]];
        let t = idx % 4;
        let s = (idx / 4) % 5;
        let g = idx / 20;
        Some(Case {
            g: nth_weighted(2, g, &pal),
            sources: l2[s as usize].to_vec(),
            targets: (0..2).filter(|i| t >> i & 1 == 1).collect(),
            family: "enum".into(),
        })
    }

    fn shrink(c: &Case) -> Vec<Case> {
        let mut out: Vec<Case> = gen::shrink_wdg(&c.g, gen::simpler_usize)
            .into_iter()
            .map(|(g, k)| Case {
                g,
                sources: gen::relabel_list(&c.sources, k),
                targets: gen::relabel_list(&c.targets, k),
                family: String::new(),
            })
            .collect();
        out.extend(gen::shrink_list(&c.sources).into_iter().map(|s| Case {
            sources: s,
            family: String::new(),
            ..c.clone()
        }));
        out.extend(gen::shrink_list(&c.targets).into_iter().map(|t| Case {
            targets: t,
            family: String::new(),
            ..c.clone()
        }));
        out
    }

    fn check(c: &Case, obs: &mut Obs) -> Verdict {
        let n = c.g.order;
        let wm = reprs::wmodel_of(&c.g);
        let um = wm.unweighted();
        let ug = gen::Dg {
            order: n,
            arcs: um.arcs(),
        };
        let targets: BTreeSet<usize> = c.targets.iter().copied().collect();
        let s = &c.sources;

        check_bfs_pred(&AdjacencyList::build(&ug), "AdjacencyList", &um, s, &targets, &|d| AdjacencyList::build(d))?;
        check_bfs_pred(&AdjacencyMap::build(&ug), "AdjacencyMap", &um, s, &targets, &|d| AdjacencyMap::build(d))?;
        check_bfs_pred(&AdjacencyMatrix::build(&ug), "AdjacencyMatrix", &um, s, &targets, &|d| AdjacencyMatrix::build(d))?;
        check_bfs_pred(&EdgeList::build(&ug), "EdgeList", &um, s, &targets, &|d| EdgeList::build(d))?;
        let g = reprs::build_weighted(&c.g);
        check_bfs_pred(&g, "AdjacencyListWeighted", &um, s, &targets, &reprs::build_unit_weighted)?;

        // Dijkstra
        let reference = wm.walk_dp(s);
        let dist = &reference.dist;
        let reachable: BTreeSet<usize> = dist
            .iter()
            .filter(|(_, d)| d.is_some())
            .map(|(&v, _)| v)
            .collect();
        let rd = |v: usize| dist[&v].unwrap_or(-1);
        let w = |u: usize, v: usize| wm.a.get(&(u, v)).map(|&x| x as i128);
        let items: Vec<(Option<usize>, usize)> = DijkstraPred::new(&g, s.iter().copied()).collect();
        let seq: Vec<usize> = items.iter().map(|&(_, v)| v).collect();
        check_sequence("DijkstraPred", &seq, &reachable, &rd)?;
        let mut from_items = vec![None; n];
        for &(p, v) in &items {
            from_items[v] = p;
        }
        check_tree("DijkstraPred items", &from_items, n, s, dist, &w)?;
        let items_l: Vec<(Option<usize>, usize)> = DijkstraPred::new(&g, s.iter().copied().filter(|_| true)).collect();
        ensure!(items_l == items, "DijkstraPred: sources passed through `filter` give {items_l:?}, passed directly {items:?}");
        {
            let q = gen::shared_queue(s);
            let items_s: Vec<(Option<usize>, usize)> = DijkstraPred::new(&g, gen::shared_cursor(&q)).collect();
            ensure!(items_s == items, "DijkstraPred: sources from a draining iterator whose clones share their cursor give {items_s:?}, passed directly {items:?}");
        }
        let h = gen::hint_pick(s.len(), n + c.g.arcs.len());
        let items_h: Vec<(Option<usize>, usize)> = DijkstraPred::new(&g, gen::hinted(s.clone(), h)).collect();
        ensure!(items_h == items, "DijkstraPred: sources from an iterator with size_hint {h:?} give {items_h:?}, passed directly {items:?}");
        let tree = DijkstraPred::new(&g, s.iter().copied()).predecessors();
        check_tree("DijkstraPred::predecessors()", &tree.pred, n, s, dist, &w)?;
        let path = DijkstraPred::new(&g, s.iter().copied()).shortest_path(|v| targets.contains(&v));
        check_path(
            "DijkstraPred::shortest_path",
            path,
            s,
            &targets,
            dist,
            &|p: &[usize]| wm.walk_weight(p),
        )?;


        if n <= 40 {
            crate::props::c02::clone_consistency("DijkstraPred", || DijkstraPred::new(&g, s.iter().copied()), items.len())?;
            for alt in [reprs::build_unit_weighted(&gen::path_dg(n / 2)), reprs::build_unit_weighted(&gen::path_dg(n + 3)), g.clone()] {
                crate::props::c02::clone_from_consistency("DijkstraPred", || DijkstraPred::new(&g, s.iter().copied()), || DijkstraPred::new(&alt, std::iter::once(0)), items.len())?;
            }
        }
        if n <= 40 {
            for k in used_splits(items.len()) {
                let mut it = DijkstraPred::new(&g, s.iter().copied());
                let yielded: BTreeSet<usize> = it.by_ref().take(k).map(|(_, v)| v).collect();
                let tree = it.predecessors();
                check_used_tree(&format!("DijkstraPred: predecessors() after {k} next() calls"), &tree.pred, n, s, &yielded, dist, &w)?;
                let mut it = DijkstraPred::new(&g, s.iter().copied());
                for _ in 0..k {
                    let _ = it.next();
                }
                let path = it.shortest_path(|v| targets.contains(&v));
                check_used_path(
                    &format!("DijkstraPred: shortest_path after {k} next() calls"),
                    path,
                    &targets,
                    &yielded,
                    dist,
                    &|p: &[usize]| wm.walk_weight(p),
                )?;
            }
        }

        // classification
        let tdists: BTreeSet<i128> = targets.iter().filter_map(|t| dist[t]).collect();
        let source_target = s.iter().any(|x| targets.contains(x));
        let (stale, _) = superseded_pops(&c.g, s);
        if tdists.len() >= 2 {
            obs.label("targets-at-different-distances");
        }
        if source_target {
            obs.label("source-is-target");
        }
        if stale > 0 {
            obs.label("superseded-entry");
        }
        if targets.is_empty() {
            obs.label("no-targets");
        } else if tdists.is_empty() {
            obs.label("targets-unreachable-only");
        }
        if tdists.len() >= 2 || source_target || stale > 0 {
            obs.nontrivial();
        }
        if !c.family.is_empty() {
            obs.label(format!("family={}", c.family));
        }
        Ok(())
    }
}
