//! C13 "API programs": a serialisable description of a short program over
//! graaf's safe public API, and its interpreter.  Shared by the proptest leg,
//! the systematic sweep, the leak meter and the libFuzzer / Miri legs.
//!
//! The interpreter's only job is to *execute* the calls, each under
//! `catch_unwind`, consuming every returned iterator / value.  The verdict
//! "memory-safe" comes from the environment it runs in (AddressSanitizer +
//! std's unsafe-precondition checks, Miri) and from the process surviving.

use crate::runner::guarded;
use graaf::{
    gen::prng::Xoshiro256StarStar, AddArc, AddArcWeighted, AdjacencyList, AdjacencyListWeighted,
    AdjacencyMap, AdjacencyMatrix, ArcWeight, Arcs, ArcsWeighted, BellmanFordMoore, Bfs, BfsDist,
    BfsPred, Biclique, Circuit, Complement, Complete, Converse, Cycle, Degree, DegreeSequence, Dfs,
    DfsDist, DfsPred, Dijkstra, DijkstraDist, DijkstraPred, DistanceMatrix, EdgeList, Empty,
    ErdosRenyi, FilterVertices, FloydWarshall, HasArc, HasEdge, HasWalk, InNeighbors, Indegree,
    IndegreeSequence, IsBalanced, IsComplete, IsIsolated, IsOriented, IsPendant, IsRegular,
    IsSemicomplete, IsSimple, IsSpanningSubdigraph, IsSubdigraph, IsSuperdigraph, IsSymmetric,
    IsTournament, Johnson75, Order, OutNeighbors, OutNeighborsWeighted, Outdegree,
    OutdegreeSequence, Path, PredecessorTree, RandomRecursiveTree, RandomTournament, RemoveArc,
    SemidegreeSequence, Sinks, Size, Sources, Star, Tarjan, Union, Vertices, Wheel,
};
use serde::{Deserialize, Serialize};
use std::collections::{BTreeMap, BTreeSet};

pub const REPRS: [&str; 6] = [
    "AdjacencyList",
    "AdjacencyMap",
    "AdjacencyMatrix",
    "EdgeList",
    "AdjacencyListWeighted<usize>",
    "AdjacencyListWeighted<isize>",
];

#[derive(Clone, Debug, Serialize, Deserialize, PartialEq)]
pub struct Base {
    /// 0..6, see REPRS
    pub repr: u8,
    pub order: usize,
    pub arcs: Vec<(usize, usize, i64)>,
    /// AdjacencyMap only: ids admitted beyond 0..order (non-contiguous map)
    #[serde(default)]
    pub extra_ids: Vec<usize>,
    /// AdjacencyMap only: ids removed again with filter_vertices
    #[serde(default)]
    pub drop_ids: Vec<usize>,
}

#[derive(Clone, Debug, Serialize, Deserialize, PartialEq)]
pub enum Call {
    AddArc(usize, usize),
    AddArcWeighted(usize, usize, i64),
    RemoveArc(usize, usize),
    Toggle(usize, usize),
    /// nullary queries / sequences: see Q0_NAMES
    Q0(u8),
    /// unary queries: see Q1_NAMES
    Q1(u8, usize),
    /// binary queries: has_arc, has_edge, arc_weight
    Q2(u8, usize, usize),
    HasWalk(Vec<usize>),
    /// structural predicates: see PRED_NAMES
    Pred(u8),
    /// is_subdigraph / is_superdigraph / is_spanning_subdigraph (0..3) against
    /// a derived digraph (0 clone, 1 converse, 2 clone minus first arc,
    /// 3 smaller/other digraph)
    Rel(u8, u8),
    /// 0 complement, 1 converse, 2 union with itself, 3 union with converse,
    /// 4 union with a digraph of another order
    Op(u8),
    Filter(Vec<usize>),
    /// filter_vertices with a predicate that panics at its n-th invocation
    FilterPanic(Vec<usize>, usize),
    /// convert into representation 0..6 and back where possible
    Convert(u8),
    FromRows(u8, Vec<Vec<usize>>),
    FromArcs(u8, Vec<(usize, usize)>),
    /// repr (0..4), generator kind, n, m2, seed, p class
    Gen(u8, u8, usize, usize, u64, u8),
    /// AdjacencyMatrix::empty with an order whose square overflows, followed
    /// by (op, u, v): 0 add_arc, 1 has_arc, 2 toggle, 3 remove_arc
    MatrixBig(u8, Vec<(u8, usize, usize)>),
    /// algo 0..9 (Bfs, BfsDist, BfsPred, Dfs, DfsDist, DfsPred, Dijkstra,
    /// DijkstraDist, DijkstraPred), sources, consumer (0 collect, 1 distances,
    /// 2 predecessors, 3 shortest_path, 4 cycles, 5 next x steps), targets, steps
    Traverse(u8, Vec<usize>, u8, Vec<usize>, u8),
    Bfm(usize),
    Fw,
    Tarjan,
    Johnson,
    /// kind 0 isize / 1 usize, order, infinity-is-max, writes (u, v, value),
    /// flat reads, tamper (0 none, 1 order=0, 2 order+1, 3 dist.clear,
    /// 4 order = usize::MAX)
    DistMatrix(u8, usize, bool, Vec<(usize, usize, i64)>, Vec<usize>, u8),
    /// pred vector (entries may be out of range), s, t, mode (0 search,
    /// 1 search_by vertex, 2 search_by none-pred, 3 index s)
    PredTree(Vec<Option<usize>>, usize, usize, u8),
    PredTreeNew(usize, usize),
    Prng(u64, u8),
    /// AdjacencyListWeighted<W> with a weight type other than isize/usize
    /// (0 `()`, 1 `Box<u32>`, 2 `String`, 3 `[u64; 4]`, 4 `u8`), order, then
    /// (op, u, v): 0 add_arc_weighted, 1 remove_arc, 2 arc_weight, 3 clone +
    /// arcs_weighted, 4 converse (Copy types), 5 rebuild through From<rows>,
    /// 6 out_neighbors_weighted(u), 7 overwrite weight of (u, v)
    Weights(u8, usize, Vec<(u8, usize, usize)>),
}

/// The `size_hint` an iterator handed to graaf reports for `len` items.  Modes
/// 0..8 are exact, 12..16 honest but loose, 8..12 lie (an upper bound that is
/// too small, a lower bound that is too large): safe code may answer a lying
/// hint with any value or a panic, never with undefined behaviour.
pub fn hint_for(mode: u8, len: usize) -> (usize, Option<usize>) {
    match mode % 16 {
        8 => (0, Some(0)),
        9 => (0, Some(len.saturating_sub(1))),
        10 => (len + 3, None),
        11 => (len + 1, Some(len + 1)),
        12 => (0, None),
        13 => (len / 2, None),
        14 => (len.min(1), Some(len + 5)),
        15 => (0, Some(len)),
        _ => (len, Some(len)),
    }
}

pub fn hint_lies(mode: u8) -> bool {
    (8..12).contains(&(mode % 16))
}

fn hinted<T>(items: Vec<T>, mode: u8) -> crate::gen::Hinted<std::vec::IntoIter<T>> {
    let h = hint_for(mode, items.len());
    crate::gen::hinted_any(items, h)
}

/// The same predecessor vector reached through the different public routes:
/// the constructor, the public field, Index/IndexMut, Clone.
pub fn build_tree(pred: &[Option<usize>], build: u8) -> PredecessorTree {
    let n = pred.len();
    if n == 0 {
        return PredecessorTree::from(pred.to_vec());
    }
    match build % 8 {
        1 => {
            let mut t = PredecessorTree::new(n);
            for (v, p) in pred.iter().enumerate() {
                t[v] = *p;
            }
            t
        }
        2 => {
            let mut t = PredecessorTree::new(1);
            t.pred = pred.to_vec();
            t
        }
        3 => {
            // grown through the public field after construction
            let k = (n / 2).max(1);
            let mut t = PredecessorTree::new(k);
            for v in 0..k {
                t.pred[v] = pred[v];
            }
            for p in &pred[k..] {
                t.pred.push(*p);
            }
            t
        }
        4 => {
            // shrunk through the public field
            let mut v = pred.to_vec();
            v.extend([Some(0), None, Some(n)]);
            let mut t = PredecessorTree::from(v);
            t.pred.truncate(n);
            t
        }
        5 => PredecessorTree::from(pred.to_vec()).clone(),
        6 => {
            let mut t = PredecessorTree::new(n + 3);
            t.clone_from(&PredecessorTree::from(pred.to_vec()));
            t
        }
        7 => {
            let mut t = PredecessorTree::new(1);
            t.pred.extend(pred[1..].iter().copied());
            t.pred[0] = pred[0];
            t
        }
        _ => PredecessorTree::from(pred.to_vec()),
    }
}

fn weights<W: Clone + std::fmt::Debug>(order: usize, ops: &[(u8, usize, usize)], mk: impl Fn(usize, usize) -> W, converse: Option<&dyn Fn(&AdjacencyListWeighted<W>) -> AdjacencyListWeighted<W>>) -> u64 {
    let mut g = AdjacencyListWeighted::<W>::empty(order);
    let mut acc = 0_u64;
    for &(op, u, v) in ops {
        let r = guarded(|| match op % 8 {
            0 | 7 => {
                g.add_arc_weighted(u, v, mk(u, v + usize::from(op % 8 == 7)));
                0
            }
            1 => u64::from(g.remove_arc(u, v)),
            2 => g.arc_weight(u, v).map_or(0, |w| format!("{w:?}").len() as u64),
            3 => {
                let c = g.clone();
                eat(c.arcs_weighted())
            }
            4 => converse.map_or(0, |f| {
                let c = f(&g);
                let n = eat(c.arcs_weighted());
                g = f(&c);
                n
            }),
            5 => {
                let rows: Vec<BTreeMap<usize, W>> = (0..g.order()).map(|u| g.out_neighbors_weighted(u).map(|(v, w)| (v, w.clone())).collect()).collect();
                g = AdjacencyListWeighted::from(rows);
                g.size() as u64
            }
            _ => eat(g.out_neighbors_weighted(u)),
        });
        acc = acc.wrapping_mul(7).wrapping_add(r.unwrap_or(99));
    }
    acc
}


pub const Q0_NAMES: [&str; 17] = [
    "order",
    "size",
    "arcs",
    "arcs_weighted",
    "vertices",
    "sinks",
    "sources",
    "degree_sequence",
    "indegree_sequence",
    "outdegree_sequence",
    "semidegree_sequence",
    "max_degree",
    "min_degree",
    "max_indegree",
    "min_indegree",
    "max_outdegree",
    "min_outdegree",
];
pub const Q1_NAMES: [&str; 11] = [
    "out_neighbors",
    "out_neighbors_weighted",
    "in_neighbors",
    "indegree",
    "outdegree",
    "degree",
    "is_sink",
    "is_source",
    "is_isolated",
    "is_pendant",
    "contiguous_order/self",
];
pub const Q2_NAMES: [&str; 3] = ["has_arc", "has_edge", "arc_weight"];
pub const PRED_NAMES: [&str; 8] = [
    "is_complete",
    "is_semicomplete",
    "is_tournament",
    "is_regular",
    "is_balanced",
    "is_symmetric",
    "is_oriented",
    "is_simple",
];
pub const ALGOS: [&str; 9] = [
    "Bfs",
    "BfsDist",
    "BfsPred",
    "Dfs",
    "DfsDist",
    "DfsPred",
    "Dijkstra",
    "DijkstraDist",
    "DijkstraPred",
];
pub const GEN_NAMES: [&str; 14] = [
    "empty",
    "trivial",
    "complete",
    "circuit",
    "cycle",
    "path",
    "star",
    "wheel",
    "biclique",
    "claw",
    "utility",
    "erdos_renyi",
    "random_tournament",
    "random_recursive_tree",
];
pub const BIG_ORDERS: [usize; 5] = [1 << 32, (1 << 32) + 1, 1 << 63, usize::MAX, (1 << 32) - 1 + (1 << 33)];

#[derive(Clone, Debug, Serialize, Deserialize, PartialEq)]
pub struct Program {
    pub base: Base,
    pub calls: Vec<Call>,
}

#[derive(Clone, Debug)]
pub enum AnyD {
    L(AdjacencyList),
    M(AdjacencyMap),
    X(AdjacencyMatrix),
    E(EdgeList),
    WU(AdjacencyListWeighted<usize>),
    WI(AdjacencyListWeighted<isize>),
}

macro_rules! all {
    ($d:expr, $x:ident => $e:expr) => {
        match $d {
            AnyD::L($x) => $e,
            AnyD::M($x) => $e,
            AnyD::X($x) => $e,
            AnyD::E($x) => $e,
            AnyD::WU($x) => $e,
            AnyD::WI($x) => $e,
        }
    };
}
macro_rules! unweighted {
    ($d:expr, $x:ident => $e:expr, $else:expr) => {
        match $d {
            AnyD::L($x) => $e,
            AnyD::M($x) => $e,
            AnyD::X($x) => $e,
            AnyD::E($x) => $e,
            _ => $else,
        }
    };
}

pub fn build(b: &Base) -> AnyD {
    let n = b.order.max(1);
    match b.repr % 6 {
        0 => {
            let mut g = AdjacencyList::empty(n);
            for &(u, v, _) in &b.arcs {
                g.add_arc(u, v);
            }
            AnyD::L(g)
        }
        1 => {
            let mut g = AdjacencyMap::empty(n);
            for &x in &b.extra_ids {
                if x != 0 {
                    g.add_arc(0, x);
                    let _ = g.remove_arc(0, x);
                }
            }
            for &(u, v, _) in &b.arcs {
                g.add_arc(u, v);
            }
            if !b.drop_ids.is_empty() {
                let keep: BTreeSet<usize> = g.vertices().filter(|v| !b.drop_ids.contains(v)).collect();
                if !keep.is_empty() {
                    g = g.filter_vertices(|v| keep.contains(&v));
                }
            }
            AnyD::M(g)
        }
        2 => {
            let mut g = AdjacencyMatrix::empty(n);
            for &(u, v, _) in &b.arcs {
                g.add_arc(u, v);
            }
            AnyD::X(g)
        }
        3 => {
            let mut g = EdgeList::empty(n);
            for &(u, v, _) in &b.arcs {
                g.add_arc(u, v);
            }
            AnyD::E(g)
        }
        4 => {
            let mut g = AdjacencyListWeighted::<usize>::empty(n);
            for &(u, v, w) in &b.arcs {
                g.add_arc_weighted(u, v, w.unsigned_abs() as usize % 1000);
            }
            AnyD::WU(g)
        }
        _ => {
            let mut g = AdjacencyListWeighted::<isize>::empty(n);
            for &(u, v, w) in &b.arcs {
                g.add_arc_weighted(u, v, (w % 1000) as isize);
            }
            AnyD::WI(g)
        }
    }
}

/// Structural validity of whatever the digraph now shows.
pub fn valid(d: &AnyD) -> Result<(), String> {
    fn go<D: Order + Size + Vertices + Arcs>(g: &D, fixed: bool, name: &str) -> Result<(), String> {
        let vs: Vec<usize> = g.vertices().collect();
        let arcs: Vec<(usize, usize)> = g.arcs().collect();
        if vs.len() != g.order() {
            return Err(format!("{name}: order() = {} but vertices() lists {}", g.order(), vs.len()));
        }
        if fixed && vs.iter().copied().ne(0..g.order()) {
            return Err(format!("{name}: vertices() = {vs:?} is not 0..order"));
        }
        if vs.windows(2).any(|w| w[0] >= w[1]) {
            return Err(format!("{name}: vertices() not strictly ascending: {vs:?}"));
        }
        if arcs.len() != g.size() {
            return Err(format!("{name}: size() = {} but arcs() lists {}", g.size(), arcs.len()));
        }
        if arcs.windows(2).any(|w| w[0] >= w[1]) {
            return Err(format!("{name}: arcs() not strictly ascending: {arcs:?}"));
        }
        let set: BTreeSet<usize> = vs.into_iter().collect();
        for (u, v) in arcs {
            if u == v || !set.contains(&u) || !set.contains(&v) {
                return Err(format!("{name}: invalid arc ({u}, {v}) is observable"));
            }
        }
        Ok(())
    }
    match d {
        AnyD::L(g) => go(g, true, REPRS[0]),
        AnyD::M(g) => go(g, false, REPRS[1]),
        AnyD::X(g) => go(g, true, REPRS[2]),
        AnyD::E(g) => go(g, true, REPRS[3]),
        AnyD::WU(g) => go(g, true, REPRS[4]),
        AnyD::WI(g) => go(g, true, REPRS[5]),
    }
}

fn eat<I: Iterator>(it: I) -> u64
where
    I::Item: std::fmt::Debug,
{
    let mut n = 0_u64;
    for x in it {
        n = n.wrapping_mul(31).wrapping_add(format!("{x:?}").len() as u64 + 1);
    }
    n
}

/// Consumers 6..9 (besides the plain ones): 6 clone the iterator, drop the
/// original, consume the clone; 7 the same after two steps; 8 a target
/// predicate that panics when it sees a target (unwinds through graaf).
fn via_clone<I: Iterator + Clone>(mut it: I, consumer: u8) -> u64
where
    I::Item: std::fmt::Debug,
{
    if consumer % 9 == 7 {
        let _ = it.next();
        let _ = it.next();
    }
    let c = it.clone();
    drop(it);
    eat(c)
}

fn traverse<D>(g: &D, algo: u8, sources: &[usize], consumer: u8, targets: &[usize], steps: u8) -> u64
where
    D: Order + OutNeighbors + Clone,
{
    let (hint, steps) = (steps / 8, steps % 8);
    let src = || hinted(sources.to_vec(), hint);
    let is_t = |v: usize| targets.contains(&v);
    let boom = |v: usize| {
        assert!(!targets.contains(&v), "target predicate panics on purpose");
        false
    };
    let cl = matches!(consumer % 9, 6 | 7);
    match algo % 9 {
        0 => {
            let mut it = Bfs::new(g, src());
            if cl {
                via_clone(it, consumer)
            } else if consumer % 9 == 5 {
                (0..steps).map(|_| it.next().map_or(0, |v| v as u64 + 1)).sum()
            } else {
                eat(it)
            }
        }
        1 => {
            let mut it = BfsDist::new(g, src());
            match consumer % 9 {
                6 | 7 => via_clone(it, consumer),
                1 => eat(it.distances().into_iter()),
                5 => (0..steps).map(|_| it.next().map_or(0, |v| v.0 as u64 + 1)).sum(),
                _ => eat(it),
            }
        }
        2 => {
            let mut it = BfsPred::new(g, src());
            match consumer % 9 {
                6 | 7 => via_clone(it, consumer),
                8 => eat(it.shortest_path(boom).into_iter()),
                2 => eat(it.predecessors().into_iter()),
                3 => eat(it.shortest_path(is_t).into_iter()),
                4 => eat(it.cycles().into_iter()),
                5 => (0..steps).map(|_| it.next().map_or(0, |v| v.1 as u64 + 1)).sum(),
                _ => eat(it),
            }
        }
        3 => {
            let mut it = Dfs::new(g, src());
            if cl {
                via_clone(it, consumer)
            } else if consumer % 9 == 5 {
                (0..steps).map(|_| it.next().map_or(0, |v| v as u64 + 1)).sum()
            } else {
                eat(it)
            }
        }
        4 => {
            let mut it = DfsDist::new(g, src());
            if cl {
                via_clone(it, consumer)
            } else if consumer % 9 == 5 {
                (0..steps).map(|_| it.next().map_or(0, |v| v.0 as u64 + 1)).sum()
            } else {
                eat(it)
            }
        }
        _ => {
            let mut it = DfsPred::new(g, src());
            match consumer % 9 {
                6 | 7 => via_clone(it, consumer),
                2 => eat(it.predecessors().into_iter()),
                5 => (0..steps).map(|_| it.next().map_or(0, |v| v.1 as u64 + 1)).sum(),
                _ => eat(it),
            }
        }
    }
}

fn dijkstra(g: &AdjacencyListWeighted<usize>, algo: u8, sources: &[usize], consumer: u8, targets: &[usize], steps: u8) -> u64 {
    let (hint, steps) = (steps / 8, steps % 8);
    let src = || hinted(sources.to_vec(), hint);
    let is_t = |v: usize| targets.contains(&v);
    let boom = |v: usize| {
        assert!(!targets.contains(&v), "target predicate panics on purpose");
        false
    };
    match algo % 9 {
        6 => {
            let mut it = Dijkstra::new(g, src());
            match consumer % 9 {
                6 | 7 => via_clone(it, consumer),
                5 => (0..steps).map(|_| it.next().map_or(0, |v| v as u64 + 1)).sum(),
                _ => eat(it),
            }
        }
        7 => {
            let mut it = DijkstraDist::new(g, src());
            match consumer % 9 {
                6 | 7 => via_clone(it, consumer),
                1 => eat(it.distances().into_iter()),
                5 => (0..steps).map(|_| it.next().map_or(0, |v| v.0 as u64 + 1)).sum(),
                _ => eat(it),
            }
        }
        _ => {
            let mut it = DijkstraPred::new(g, src());
            match consumer % 9 {
                6 | 7 => via_clone(it, consumer),
                8 => eat(it.shortest_path(boom).into_iter()),
                2 => eat(it.predecessors().into_iter()),
                3 => eat(it.shortest_path(is_t).into_iter()),
                5 => (0..steps).map(|_| it.next().map_or(0, |v| v.1 as u64 + 1)).sum(),
                _ => eat(it),
            }
        }
    }
}

fn q0<D>(g: &D, id: u8) -> u64
where
    D: Order
        + Size
        + Arcs
        + Vertices
        + Sinks
        + Sources
        + DegreeSequence
        + IndegreeSequence
        + OutdegreeSequence
        + SemidegreeSequence
        + Degree
        + Indegree
        + Outdegree,
{
    match id % 17 {
        0 => g.order() as u64,
        1 => g.size() as u64,
        2 | 3 => eat(g.arcs()),
        4 => eat(g.vertices()),
        5 => eat(g.sinks()),
        6 => eat(g.sources()),
        7 => eat(g.degree_sequence()),
        8 => eat(g.indegree_sequence()),
        9 => eat(g.outdegree_sequence()),
        10 => eat(g.semidegree_sequence()),
        11 => g.max_degree() as u64,
        12 => g.min_degree() as u64,
        13 => g.max_indegree() as u64,
        14 => g.min_indegree() as u64,
        15 => g.max_outdegree() as u64,
        _ => g.min_outdegree() as u64,
    }
}

fn q1<D>(g: &D, id: u8, u: usize) -> u64
where
    D: OutNeighbors + InNeighbors + Indegree + Outdegree + Degree + IsIsolated + IsPendant,
{
    match id % 11 {
        0 | 1 => eat(g.out_neighbors(u)),
        2 => eat(g.in_neighbors(u)),
        3 => g.indegree(u) as u64,
        4 => g.outdegree(u) as u64,
        5 => g.degree(u) as u64,
        6 => u64::from(g.is_sink(u)),
        7 => u64::from(g.is_source(u)),
        8 => u64::from(g.is_isolated(u)),
        9 => u64::from(g.is_pendant(u)),
        _ => 0,
    }
}

fn pred<D>(g: &D, id: u8) -> u64
where
    D: IsComplete + IsSemicomplete + IsTournament + IsRegular + IsBalanced + IsSymmetric + IsOriented + IsSimple,
{
    u64::from(match id % 8 {
        0 => g.is_complete(),
        1 => g.is_semicomplete(),
        2 => g.is_tournament(),
        3 => g.is_regular(),
        4 => g.is_balanced(),
        5 => g.is_symmetric(),
        6 => g.is_oriented(),
        _ => g.is_simple(),
    })
}

fn rel<D>(g: &D, which: u8, other: &D) -> u64
where
    D: IsSubdigraph + IsSuperdigraph + IsSpanningSubdigraph,
{
    u64::from(match which % 3 {
        0 => g.is_subdigraph(other) | other.is_subdigraph(g),
        1 => g.is_superdigraph(other) | other.is_superdigraph(g),
        _ => g.is_spanning_subdigraph(other) | other.is_spanning_subdigraph(g),
    })
}

fn gen_call<D>(kind: u8, n: usize, m2: usize, seed: u64, pk: u8) -> D
where
    D: Empty + Complete + Circuit + Cycle + Path + Star + Wheel + Biclique + ErdosRenyi + RandomTournament + RandomRecursiveTree,
{
    let p = match pk % 8 {
        0 => 0.0,
        1 => 1.0,
        2 => 0.5,
        3 => 0.75,
        4 => -0.5,
        5 => 1.5,
        6 => f64::NAN,
        _ => f64::INFINITY,
    };
    match GEN_NAMES[kind as usize % GEN_NAMES.len()] {
        "empty" => D::empty(n),
        "trivial" => D::trivial(),
        "complete" => D::complete(n),
        "circuit" => D::circuit(n),
        "cycle" => D::cycle(n),
        "path" => D::path(n),
        "star" => D::star(n),
        "wheel" => D::wheel(n),
        "biclique" => D::biclique(n, m2),
        "claw" => D::claw(),
        "utility" => D::utility(),
        "erdos_renyi" => D::erdos_renyi(n, p, seed),
        "random_tournament" => D::random_tournament(n, seed),
        _ => D::random_recursive_tree(n, seed),
    }
}

fn dist_matrix<W>(order: usize, inf: W, conv: impl Fn(i64) -> W, writes: &[(usize, usize, i64)], reads: &[usize], tamper: u8) -> u64
where
    W: Copy + Ord + std::fmt::Debug,
{
    let mut m = DistanceMatrix::new(order, inf);
    let mut acc = 0_u64;
    for &(u, v, x) in writes {
        // each write is its own guarded call: an out-of-range index must panic
        let r = guarded(|| {
            m[(u, v)] = conv(x);
        });
        acc += u64::from(r.is_ok());
    }
    match tamper % 5 {
        1 => m.order = 0,
        2 => m.order += 1,
        3 => m.dist.clear(),
        4 => m.order = usize::MAX,
        _ => {}
    }
    for &i in reads {
        acc += u64::from(guarded(|| format!("{:?}", m[i]).len()).is_ok());
        acc += u64::from(guarded(|| format!("{:?}", m[(i, i / 2)]).len()).is_ok());
        acc += u64::from(guarded(|| m[i..i.saturating_add(2)].len()).is_ok());
    }
    acc += u64::from(guarded(|| m[..].len()).is_ok());
    acc += u64::from(guarded(|| eat(m.eccentricities())).is_ok());
    acc += u64::from(guarded(|| format!("{:?}", m.diameter()).len()).is_ok());
    acc += u64::from(guarded(|| m.center().len()).is_ok());
    acc += u64::from(guarded(|| eat(m.periphery())).is_ok());
    acc += u64::from(guarded(|| m.is_connected()).is_ok());
    acc
}

/// Executes one call.  Must itself never panic outside `guarded` for harness
/// reasons; graaf panics propagate to the caller's `guarded`.
pub fn exec(d: &mut AnyD, call: &Call) -> u64 {
    match call {
        Call::AddArc(u, v) => {
            unweighted!(d, g => g.add_arc(*u, *v), ());
            0
        }
        Call::AddArcWeighted(u, v, w) => {
            match d {
                AnyD::WU(g) => g.add_arc_weighted(*u, *v, *w as u64 as usize),
                AnyD::WI(g) => g.add_arc_weighted(*u, *v, *w as isize),
                _ => {}
            }
            0
        }
        Call::RemoveArc(u, v) => u64::from(all!(d, g => g.remove_arc(*u, *v))),
        Call::Toggle(u, v) => {
            if let AnyD::X(g) = d {
                g.toggle(*u, *v);
            }
            0
        }
        Call::Q0(id) => {
            let a = all!(d, g => q0(g, *id));
            let b = match d {
                AnyD::WU(g) if *id % 17 == 3 => eat(g.arcs_weighted()),
                AnyD::WI(g) if *id % 17 == 3 => eat(g.arcs_weighted()),
                _ => 0,
            };
            a + b
        }
        Call::Q1(id, u) => {
            let a = all!(d, g => q1(g, *id, *u));
            let b = match d {
                AnyD::WU(g) if *id % 11 == 1 => eat(g.out_neighbors_weighted(*u)),
                AnyD::WI(g) if *id % 11 == 1 => eat(g.out_neighbors_weighted(*u)),
                _ => 0,
            };
            a + b
        }
        Call::Q2(id, u, v) => match id % 3 {
            0 => u64::from(all!(d, g => g.has_arc(*u, *v))),
            1 => u64::from(all!(d, g => g.has_edge(*u, *v))),
            _ => match d {
                AnyD::WU(g) => g.arc_weight(*u, *v).map_or(0, |w| *w as u64),
                AnyD::WI(g) => g.arc_weight(*u, *v).map_or(0, |w| *w as u64),
                _ => 0,
            },
        },
        Call::HasWalk(w) => u64::from(all!(d, g => g.has_walk(w))),
        Call::Pred(id) => all!(d, g => pred(g, *id)),
        Call::Rel(which, other) => {
            all!(d, g => {
                let mut o = g.clone();
                match other % 4 {
                    1 => o = g.converse(),
                    2 => {
                        let first = g.arcs().next();
                        if let Some((u, v)) = first {
                            let _ = o.remove_arc(u, v);
                        }
                    }
                    _ => {}
                }
                rel(g, *which, &o)
            })
        }
        Call::Op(id) => match id % 5 {
            0 => unweighted!(d, g => eat(g.complement().arcs()), 0),
            1 => all!(d, g => eat(g.converse().arcs())),
            2 => unweighted!(d, g => eat(g.union(g).arcs()), 0),
            3 => unweighted!(d, g => eat(g.union(&g.converse()).arcs()), 0),
            _ => match d {
                AnyD::L(g) => eat(g.union(&AdjacencyList::cycle(g.order() + 2)).arcs()),
                AnyD::M(g) => {
                    let mut o = AdjacencyMap::empty(2);
                    o.add_arc(1, 77);
                    o.add_arc(77, 3);
                    eat(g.union(&o).arcs()) + eat(o.union(g).arcs())
                }
                AnyD::X(g) => eat(g.union(&AdjacencyMatrix::cycle(g.order() + 2)).arcs()),
                AnyD::E(g) => eat(g.union(&EdgeList::cycle(g.order() + 2)).arcs()),
                _ => 0,
            },
        },
        Call::Filter(keep) => {
            if let AnyD::M(g) = d {
                eat(g.filter_vertices(|v| keep.contains(&v)).arcs())
            } else {
                0
            }
        }
        Call::FilterPanic(keep, at) => {
            if let AnyD::M(g) = d {
                let calls = std::cell::Cell::new(0_usize);
                eat(g
                    .filter_vertices(|v| {
                        calls.set(calls.get() + 1);
                        assert!(calls.get() != *at + 1, "vertex predicate panics on purpose");
                        keep.contains(&v)
                    })
                    .arcs())
            } else {
                0
            }
        }
        Call::Convert(to) => {
            let r = unweighted!(d, g => {
                let g = g.clone();
                match to % 6 {
                    0 => eat(AdjacencyList::from_any(g).arcs()),
                    1 => eat(AdjacencyMap::from_any(g).arcs()),
                    2 => eat(AdjacencyMatrix::from_any(g).arcs()),
                    3 => eat(EdgeList::from_any(g).arcs()),
                    4 => eat(AdjacencyListWeighted::<usize>::from_any(g).arcs()),
                    _ => eat(AdjacencyListWeighted::<isize>::from_any(g).arcs()),
                }
            }, 0);
            r
        }
        Call::FromRows(target, rows) => match target % 3 {
            0 => {
                let r: Vec<BTreeSet<usize>> = rows.iter().map(|r| r.iter().copied().collect()).collect();
                eat(AdjacencyList::from(hinted(r, target / 3)).arcs())
            }
            1 => {
                let r: Vec<BTreeSet<usize>> = rows.iter().map(|r| r.iter().copied().collect()).collect();
                eat(AdjacencyMap::from(hinted(r, target / 3)).arcs())
            }
            _ => {
                let r: Vec<BTreeMap<usize, usize>> = rows.iter().map(|r| r.iter().map(|&v| (v, v + 1)).collect()).collect();
                eat(AdjacencyListWeighted::<usize>::from(hinted(r, target / 3)).arcs())
            }
        },
        Call::FromArcs(target, arcs) => {
            if target % 2 == 0 {
                eat(AdjacencyMatrix::from(hinted(arcs.clone(), target / 2)).arcs())
            } else {
                eat(EdgeList::from(hinted(arcs.clone(), target / 2)).arcs())
            }
        }
        Call::Gen(repr, kind, n, m2, seed, pk) => match repr % 4 {
            0 => eat(gen_call::<AdjacencyList>(*kind, *n, *m2, *seed, *pk).arcs()),
            1 => eat(gen_call::<AdjacencyMap>(*kind, *n, *m2, *seed, *pk).arcs()),
            2 => eat(gen_call::<AdjacencyMatrix>(*kind, *n, *m2, *seed, *pk).arcs()),
            _ => eat(gen_call::<EdgeList>(*kind, *n, *m2, *seed, *pk).arcs()),
        },
        Call::MatrixBig(which, ops) => {
            let order = BIG_ORDERS[*which as usize % BIG_ORDERS.len()];
            let mut g = AdjacencyMatrix::empty(order);
            let mut acc = 0;
            for &(op, u, v) in ops {
                // the far endpoints are taken relative to the huge order
                let fix = |x: usize| if x >= 1000 { order - 1 - (x % 7) } else { x };
                let (u, v) = (fix(u), fix(v));
                let r = guarded(|| match op % 4 {
                    0 => {
                        g.add_arc(u, v);
                        0
                    }
                    1 => u64::from(g.has_arc(u, v)),
                    2 => {
                        g.toggle(u, v);
                        0
                    }
                    _ => u64::from(g.remove_arc(u, v)),
                });
                acc += r.unwrap_or(1);
            }
            acc + g.order() as u64
        }
        Call::Traverse(algo, sources, consumer, targets, steps) => {
            if algo % 9 >= 6 {
                if let AnyD::WU(g) = d {
                    dijkstra(g, *algo, sources, *consumer, targets, *steps)
                } else {
                    0
                }
            } else {
                all!(d, g => traverse(g, *algo, sources, *consumer, targets, *steps))
            }
        }
        Call::Bfm(s) => {
            if let AnyD::WI(g) = d {
                let mut b = BellmanFordMoore::new(g, *s);
                b.distances().map_or(0, |x| x.len() as u64)
            } else {
                0
            }
        }
        Call::Fw => {
            if let AnyD::WI(g) = d {
                let mut f = FloydWarshall::new(g);
                let m = f.distances();
                eat(m.eccentricities()) + m.center().len() as u64
            } else {
                0
            }
        }
        Call::Tarjan => all!(d, g => Tarjan::new(g).components().len() as u64),
        Call::Johnson => {
            if let AnyD::M(g) = d {
                Johnson75::new(g).circuits().len() as u64
            } else {
                0
            }
        }
        Call::DistMatrix(kind, order, inf_max, writes, reads, tamper) => {
            if kind % 2 == 0 {
                dist_matrix::<isize>(*order, if *inf_max { isize::MAX } else { 50 }, |x| x as isize, writes, reads, *tamper)
            } else {
                dist_matrix::<usize>(*order, if *inf_max { usize::MAX } else { 50 }, |x| x.unsigned_abs() as usize, writes, reads, *tamper)
            }
        }
        Call::PredTree(p, s, t, mode) => {
            let tree = build_tree(p, mode / 5);
            match mode % 5 {
                4 => {
                    // a predicate that panics at its (t % 4 + 1)-th invocation
                    let calls = std::cell::Cell::new(0_usize);
                    tree.search_by(*s, |_, _| {
                        calls.set(calls.get() + 1);
                        assert!(calls.get() != *t % 4 + 1, "search predicate panics on purpose");
                        false
                    })
                    .map_or(0, |x| x.len() as u64)
                }
                0 => tree.search(*s, *t).map_or(0, |x| x.len() as u64),
                1 => tree.search_by(*s, |v, _| *v == *t).map_or(0, |x| x.len() as u64),
                2 => tree.search_by(*s, |_, p| p.is_none()).map_or(0, |x| x.len() as u64),
                _ => tree[*s].map_or(0, |x| x as u64) + eat(tree.into_iter()),
            }
        }
        Call::PredTreeNew(order, i) => {
            let mut t = PredecessorTree::new(*order);
            t[*i] = Some(*i);
            t.search(*i, 0).map_or(0, |x| x.len() as u64)
        }
        Call::Weights(ty, order, ops) => match ty % 5 {
            0 => weights::<()>(*order, ops, |_, _| (), Some(&|g| g.converse())),
            1 => weights::<Box<u32>>(*order, ops, |u, v| Box::new((u * 10 + v) as u32), None),
            2 => weights::<String>(*order, ops, |u, v| format!("w{u}-{v}-{}", "x".repeat(v % 40)), None),
            3 => weights::<[u64; 4]>(*order, ops, |u, v| [u as u64, v as u64, 3, 4], Some(&|g| g.converse())),
            _ => weights::<u8>(*order, ops, |u, v| (u * 16 + v) as u8, Some(&|g| g.converse())),
        },
        Call::Prng(seed, n) => {
            let mut r = Xoshiro256StarStar::new(*seed);
            let mut acc = 0_u64;
            for _ in 0..*n {
                acc = acc.wrapping_add(r.next().unwrap_or(0)).wrapping_add(u64::from(r.next_bool()));
                let f = r.next_f64();
                acc = acc.wrapping_add(u64::from(f < 0.5));
            }
            acc
        }
    }
}

/// Conversion helper so `Convert` can be written once over the source type.
pub trait FromAny<S> {
    fn from_any(s: S) -> Self;
}
macro_rules! from_any {
    ($t:ty, $($s:ty),*) => {
        $(impl FromAny<$s> for $t {
            fn from_any(s: $s) -> Self {
                <$t>::from(s)
            }
        })*
    };
}
from_any!(AdjacencyList, AdjacencyMap, AdjacencyMatrix, EdgeList);
from_any!(AdjacencyMap, AdjacencyList, AdjacencyMatrix, EdgeList);
from_any!(AdjacencyMatrix, AdjacencyList, AdjacencyMap, EdgeList);
from_any!(EdgeList, AdjacencyList, AdjacencyMap, AdjacencyMatrix);
from_any!(AdjacencyListWeighted<usize>, AdjacencyList, AdjacencyMap, AdjacencyMatrix, EdgeList);
from_any!(AdjacencyListWeighted<isize>, AdjacencyList, AdjacencyMap, AdjacencyMatrix, EdgeList);
impl FromAny<AdjacencyList> for AdjacencyList {
    fn from_any(s: AdjacencyList) -> Self {
        s
    }
}
impl FromAny<AdjacencyMap> for AdjacencyMap {
    fn from_any(s: AdjacencyMap) -> Self {
        s
    }
}
impl FromAny<AdjacencyMatrix> for AdjacencyMatrix {
    fn from_any(s: AdjacencyMatrix) -> Self {
        s
    }
}
impl FromAny<EdgeList> for EdgeList {
    fn from_any(s: EdgeList) -> Self {
        s
    }
}

#[derive(Clone, Debug, Default)]
pub struct RunStats {
    pub returned: usize,
    pub panicked: usize,
}

/// Runs a whole program.  Err = the digraph became invalid (a property
/// violation that does not need a sanitizer to see).
pub fn run_program(p: &Program) -> Result<RunStats, String> {
    let mut stats = RunStats::default();
    let built = guarded(|| build(&p.base));
    let mut d = match built {
        Ok(d) => d,
        Err(m) => return Err(format!("harness: base digraph could not be built: {m}")),
    };
    valid(&d).map_err(|m| format!("base digraph: {m}"))?;
    for (i, c) in p.calls.iter().enumerate() {
        match guarded(|| exec(&mut d, c)) {
            Ok(_) => stats.returned += 1,
            Err(_) => stats.panicked += 1,
        }
        // after a return or a panic the digraph must still be valid and usable
        guarded(|| valid(&d))
            .map_err(|m| format!("after call {i} {c:?}: inspecting the digraph panicked: {m}"))?
            .map_err(|m| format!("after call {i} {c:?}: {m}"))?;
    }
    Ok(stats)
}
