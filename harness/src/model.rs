//! The abstract digraph (V, A, w) and textbook reference algorithms.
//!
//! Nothing in this file calls graaf.  Everything is written for clarity, with
//! `i128` arithmetic, and is the oracle side of every check.

use std::collections::{BTreeMap, BTreeSet};

#[derive(Clone, Debug, PartialEq, Eq)]
pub struct Model<W> {
    pub v: BTreeSet<usize>,
    pub a: BTreeMap<(usize, usize), W>,
}

pub type UModel = Model<()>;

impl<W: Clone> Model<W> {
    pub fn contiguous(order: usize) -> Self {
        Self {
            v: (0..order).collect(),
            a: BTreeMap::new(),
        }
    }

    pub fn from_arcs(order: usize, arcs: impl IntoIterator<Item = (usize, usize, W)>) -> Self {
        let mut m = Self::contiguous(order);
        for (u, v, w) in arcs {
            assert!(u != v && u < order && v < order, "harness: bad model arc");
            m.a.insert((u, v), w);
        }
        m
    }

    pub fn from_sets(v: BTreeSet<usize>, arcs: impl IntoIterator<Item = (usize, usize, W)>) -> Self {
        let mut m = Self {
            v,
            a: BTreeMap::new(),
        };
        for (u, x, w) in arcs {
            assert!(u != x && m.v.contains(&u) && m.v.contains(&x), "harness: bad model arc");
            m.a.insert((u, x), w);
        }
        m
    }

    pub fn order(&self) -> usize {
        self.v.len()
    }

    pub fn size(&self) -> usize {
        self.a.len()
    }

    pub fn is_contiguous(&self) -> bool {
        self.v.iter().copied().eq(0..self.v.len())
    }

    pub fn has(&self, u: usize, v: usize) -> bool {
        self.a.contains_key(&(u, v))
    }

    pub fn arcs(&self) -> Vec<(usize, usize)> {
        self.a.keys().copied().collect()
    }

    pub fn arcs_w(&self) -> Vec<(usize, usize, W)> {
        self.a.iter().map(|(&(u, v), w)| (u, v, w.clone())).collect()
    }

    pub fn vertices(&self) -> Vec<usize> {
        self.v.iter().copied().collect()
    }

    pub fn out(&self, u: usize) -> Vec<usize> {
        self.a
            .range((u, 0)..=(u, usize::MAX))
            .map(|(&(_, v), _)| v)
            .collect()
    }

    pub fn out_w(&self, u: usize) -> Vec<(usize, W)> {
        self.a
            .range((u, 0)..=(u, usize::MAX))
            .map(|(&(_, v), w)| (v, w.clone()))
            .collect()
    }

    pub fn inn(&self, v: usize) -> Vec<usize> {
        self.a
            .keys()
            .filter(|&&(_, y)| y == v)
            .map(|&(x, _)| x)
            .collect()
    }

    pub fn outdeg(&self, u: usize) -> usize {
        self.out(u).len()
    }

    pub fn indeg(&self, v: usize) -> usize {
        self.inn(v).len()
    }

    pub fn unweighted(&self) -> UModel {
        Model {
            v: self.v.clone(),
            a: self.a.keys().map(|&k| (k, ())).collect(),
        }
    }

    // --- operations (definitions) -----------------------------------------

    pub fn converse(&self) -> Self {
        Self {
            v: self.v.clone(),
            a: self
                .a
                .iter()
                .map(|(&(u, v), w)| ((v, u), w.clone()))
                .collect(),
        }
    }

    pub fn induced(&self, keep: &BTreeSet<usize>) -> Self {
        Self {
            v: self.v.intersection(keep).copied().collect(),
            a: self
                .a
                .iter()
                .filter(|(&(u, v), _)| keep.contains(&u) && keep.contains(&v))
                .map(|(&k, w)| (k, w.clone()))
                .collect(),
        }
    }

    // --- reachability -----------------------------------------------------

    /// Closure of `sources` under arcs (worklist search).
    pub fn reach(&self, sources: &[usize]) -> BTreeSet<usize> {
        let mut seen: BTreeSet<usize> = sources.iter().copied().collect();
        let mut todo: Vec<usize> = seen.iter().copied().collect();
        while let Some(u) = todo.pop() {
            for v in self.out(u) {
                if seen.insert(v) {
                    todo.push(v);
                }
            }
        }
        seen
    }

    /// The same closure by naive fixpoint iteration over the arc list; used
    /// to cross-check `reach` in the harness's own unit tests.
    pub fn reach_fixpoint(&self, sources: &[usize]) -> BTreeSet<usize> {
        let mut seen: BTreeSet<usize> = sources.iter().copied().collect();
        loop {
            let mut grew = false;
            for &(u, v) in self.a.keys() {
                if seen.contains(&u) && seen.insert(v) {
                    grew = true;
                }
            }
            if !grew {
                return seen;
            }
        }
    }

    /// Hop distance from the nearest source, by level sets.
    pub fn hops(&self, sources: &[usize]) -> BTreeMap<usize, usize> {
        let mut dist = BTreeMap::new();
        let mut level: BTreeSet<usize> = sources.iter().copied().collect();
        let mut k = 0;
        while !level.is_empty() {
            for &u in &level {
                dist.insert(u, k);
            }
            let mut next = BTreeSet::new();
            for &u in &level {
                for v in self.out(u) {
                    if !dist.contains_key(&v) {
                        next.insert(v);
                    }
                }
            }
            level = next;
            k += 1;
        }
        dist
    }

    /// reach[u] = set of vertices reachable from u by a walk of length >= 0.
    pub fn closure(&self) -> BTreeMap<usize, BTreeSet<usize>> {
        self.v.iter().map(|&u| (u, self.reach(&[u]))).collect()
    }

    /// Strongly connected components straight from the definition.
    pub fn sccs(&self) -> BTreeSet<BTreeSet<usize>> {
        let c = self.closure();
        self.v
            .iter()
            .map(|&u| {
                self.v
                    .iter()
                    .copied()
                    .filter(|x| c[&u].contains(x) && c[x].contains(&u))
                    .collect()
            })
            .collect()
    }

    /// Every elementary circuit once, written from its smallest vertex.
    /// Plain depth-first enumeration of simple paths; exponential.
    pub fn circuits(&self) -> BTreeSet<Vec<usize>> {
        let mut found = BTreeSet::new();
        for &s in &self.v {
            let mut path = vec![s];
            self.circuits_from(s, &mut path, &mut found);
        }
        found
    }

    fn circuits_from(&self, s: usize, path: &mut Vec<usize>, found: &mut BTreeSet<Vec<usize>>) {
        let last = *path.last().unwrap();
        for v in self.out(last) {
            if v == s {
                found.insert(path.clone());
            } else if v > s && !path.contains(&v) {
                path.push(v);
                self.circuits_from(s, path, found);
                path.pop();
            }
        }
    }
}

impl UModel {
    pub fn from_pairs(order: usize, arcs: &[(usize, usize)]) -> Self {
        Self::from_arcs(order, arcs.iter().map(|&(u, v)| (u, v, ())))
    }

    pub fn complement(&self) -> Self {
        let mut a = BTreeMap::new();
        for &u in &self.v {
            for &v in &self.v {
                if u != v && !self.has(u, v) {
                    a.insert((u, v), ());
                }
            }
        }
        Self {
            v: self.v.clone(),
            a,
        }
    }

    pub fn union(&self, o: &Self) -> Self {
        Self {
            v: self.v.union(&o.v).copied().collect(),
            a: self.a.keys().chain(o.a.keys()).map(|&k| (k, ())).collect(),
        }
    }

    // --- predicates (definitions) -----------------------------------------

    pub fn is_complete(&self) -> bool {
        self.v
            .iter()
            .all(|&u| self.v.iter().all(|&v| u == v || self.has(u, v)))
    }

    pub fn is_semicomplete(&self) -> bool {
        self.v.iter().all(|&u| {
            self.v
                .iter()
                .all(|&v| u == v || self.has(u, v) || self.has(v, u))
        })
    }

    pub fn is_tournament(&self) -> bool {
        self.v.iter().all(|&u| {
            self.v
                .iter()
                .all(|&v| u == v || (self.has(u, v) != self.has(v, u)))
        })
    }

    pub fn is_regular(&self) -> bool {
        let mut k = None;
        for &u in &self.v {
            let (i, o) = (self.indeg(u), self.outdeg(u));
            if i != o {
                return false;
            }
            match k {
                None => k = Some(i),
                Some(x) if x != i => return false,
                _ => {}
            }
        }
        true
    }

    pub fn is_balanced(&self) -> bool {
        self.v.iter().all(|&u| self.indeg(u) == self.outdeg(u))
    }

    pub fn is_symmetric(&self) -> bool {
        self.a.keys().all(|&(u, v)| self.has(v, u))
    }

    pub fn is_oriented(&self) -> bool {
        self.a.keys().all(|&(u, v)| !self.has(v, u))
    }

    pub fn is_subdigraph_of(&self, d: &Self) -> bool {
        self.v.is_subset(&d.v) && self.a.keys().all(|&(u, v)| d.has(u, v))
    }

    pub fn is_spanning_subdigraph_of(&self, d: &Self) -> bool {
        self.v == d.v && self.a.keys().all(|&(u, v)| d.has(u, v))
    }
}

/// Weights that embed in i128.
pub trait Wt: Clone + Copy + std::fmt::Debug + PartialEq {
    fn to_i128(self) -> i128;
}
impl Wt for usize {
    fn to_i128(self) -> i128 {
        self as i128
    }
}
impl Wt for isize {
    fn to_i128(self) -> i128 {
        self as i128
    }
}
impl Wt for () {
    fn to_i128(self) -> i128 {
        1
    }
}

#[derive(Clone, Debug, PartialEq, Eq)]
pub struct WalkDp {
    /// Minimum weight of a walk with at most |V|-1 arcs from a source;
    /// `None` = unreachable.
    pub dist: BTreeMap<usize, Option<i128>>,
    /// A negative-weight circuit is reachable from the sources.
    pub negative_circuit: bool,
    /// Number of relaxation rounds after which nothing changed any more
    /// (capped at |V|).
    pub rounds: usize,
}

impl<W: Wt> Model<W> {
    /// Dynamic programme over walk length: D_0[v] = 0 for sources, else
    /// infinity; D_{k+1}[v] = min(D_k[v], min_{u->v} D_k[u] + w(u,v)).
    /// Synchronous rounds (each round reads only the previous round).
    pub fn walk_dp(&self, sources: &[usize]) -> WalkDp {
        // vertices are addressed by their position in the sorted vertex list
        let vs: Vec<usize> = self.v.iter().copied().collect();
        let pos = |v: usize| vs.binary_search(&v).expect("harness: arc endpoint not in V");
        let n = vs.len();
        let arcs: Vec<(usize, usize, i128)> = self
            .a
            .iter()
            .map(|(&(u, v), w)| (pos(u), pos(v), w.to_i128()))
            .collect();
        let mut d: Vec<Option<i128>> = vec![None; n];
        for &s in sources {
            d[pos(s)] = Some(0);
        }
        // one synchronous round: reads only the previous round's values
        let step = |d: &Vec<Option<i128>>| {
            let mut e = d.clone();
            for &(u, v, w) in &arcs {
                if let Some(du) = d[u] {
                    let c = du + w;
                    if e[v].map_or(true, |x| c < x) {
                        e[v] = Some(c);
                    }
                }
            }
            e
        };
        let mut rounds = 0;
        for k in 1..n.max(1) {
            let e = step(&d);
            if e == d {
                break;
            }
            rounds = k;
            d = e;
        }
        let e = step(&d);
        let negative_circuit = e != d;
        if negative_circuit {
            rounds = n;
        }
        WalkDp {
            dist: vs.iter().copied().zip(d).collect(),
            negative_circuit,
            rounds,
        }
    }

    /// Weight of a vertex sequence as a walk, `None` if some step is no arc.
    pub fn walk_weight(&self, walk: &[usize]) -> Option<i128> {
        let mut t = 0_i128;
        for p in walk.windows(2) {
            t += self.a.get(&(p[0], p[1]))?.to_i128();
        }
        Some(t)
    }

    /// Independent cross-check of `walk_dp` on tiny digraphs: minimum weight
    /// over all *simple paths* by exhaustive enumeration.  Valid whenever no
    /// negative circuit is reachable.
    pub fn simple_path_min(&self, sources: &[usize]) -> BTreeMap<usize, Option<i128>> {
        let mut best: BTreeMap<usize, Option<i128>> =
            self.v.iter().map(|&v| (v, None)).collect();
        fn go<W: Wt>(
            m: &Model<W>,
            path: &mut Vec<usize>,
            w: i128,
            best: &mut BTreeMap<usize, Option<i128>>,
        ) {
            let last = *path.last().unwrap();
            if best[&last].map_or(true, |x| w < x) {
                best.insert(last, Some(w));
            }
            for (v, wt) in m.out_w(last) {
                if !path.contains(&v) {
                    path.push(v);
                    go(m, path, w + wt.to_i128(), best);
                    path.pop();
                }
            }
        }
        for &s in sources {
            let mut p = vec![s];
            go(self, &mut p, 0, &mut best);
        }
        best
    }
}

#[cfg(test)]
mod tests {
    use super::*;

    #[test]
    fn circuits_k3() {
        let m = UModel::from_pairs(3, &[(0, 1), (1, 0), (1, 2), (2, 1), (0, 2), (2, 0)]);
        assert_eq!(m.circuits().len(), 5);
        assert_eq!(m.sccs().len(), 1);
    }

    #[test]
    fn reach_agrees_with_fixpoint() {
        let m = UModel::from_pairs(6, &[(0, 1), (1, 2), (2, 0), (3, 4), (4, 3), (2, 5)]);
        for s in 0..6 {
            assert_eq!(m.reach(&[s]), m.reach_fixpoint(&[s]));
        }
        assert_eq!(m.reach(&[]), m.reach_fixpoint(&[]));
    }

    #[test]
    fn dp_matches_paths() {
        let m: Model<isize> =
            Model::from_arcs(4, [(0, 1, 10), (0, 2, 1), (2, 1, 1), (0, 3, 20)]);
        let d = m.walk_dp(&[0]);
        assert_eq!(d.dist[&1], Some(2));
        assert_eq!(d.dist, m.simple_path_min(&[0]));
        assert!(!d.negative_circuit);
    }
}

/// Closed-form arc sets of the deterministic generators, written from the
/// property text (C14), not from graaf's code.
pub fn closed_form(kind: &str, n: usize, m2: usize) -> (usize, Vec<(usize, usize)>) {
    let mut a: BTreeSet<(usize, usize)> = BTreeSet::new();
    let mut order = n;
    match kind {
        "empty" => {}
        "complete" => {
            for u in 0..n {
                for v in 0..n {
                    if u != v {
                        a.insert((u, v));
                    }
                }
            }
        }
        "circuit" => {
            if n > 1 {
                for i in 0..n {
                    a.insert((i, (i + 1) % n));
                }
            }
        }
        "cycle" => {
            if n > 1 {
                for i in 0..n {
                    a.insert((i, (i + 1) % n));
                    a.insert(((i + 1) % n, i));
                }
            }
        }
        "path" => {
            for i in 0..n.saturating_sub(1) {
                a.insert((i, i + 1));
            }
        }
        "star" => {
            for i in 1..n {
                a.insert((0, i));
                a.insert((i, 0));
            }
        }
        "wheel" => {
            // star(n) united with the cycle through 1..n-1
            for i in 1..n {
                a.insert((0, i));
                a.insert((i, 0));
            }
            let rim = n - 1;
            for i in 0..rim {
                let (x, y) = (1 + i, 1 + (i + 1) % rim);
                a.insert((x, y));
                a.insert((y, x));
            }
        }
        "biclique" => {
            // u <-> v exactly for u < m <= v < m + n   (here m = n, n = m2)
            order = n + m2;
            for u in 0..n {
                for v in n..n + m2 {
                    a.insert((u, v));
                    a.insert((v, u));
                }
            }
        }
        _ => panic!("harness: unknown closed form {kind}"),
    }
    (order, a.into_iter().collect())
}
