#!/bin/bash
# tools/mirileg.sh <ID> [stride] [jobs]  — Miri leg for C13 / C17 (thorough tier).
# Miri sees what AddressSanitizer cannot (in-allocation out-of-bounds, out-of-bounds pointer arithmetic
# without a dereference, leaks at exit, data races) and owns the thread schedule (-Zmiri-seed) and the CPU
# count (-Zmiri-num-cpus).  Exit 1 + VIOLATION line only if the reported case fails again when run alone.
set -u
ID=$1; STRIDE=${2:-4}; JOBS=${3:-16}
ROOT="${GV_ROOT:-/verif}"; cd "$ROOT"
case $ID in C13|C17) ;; *) exit 0;; esac
export CARGO_NET_OFFLINE=true
W=$ROOT/work/miri/$ID; rm -rf "$W"; mkdir -p "$W"
SEED=${VERIF_SEED:-0}
work/target/release/gv miri-cases $ID $STRIDE $SEED > "$W/cases.jsonl"
N=$(wc -l < "$W/cases.jsonl")
run_miri() { # <cpus> <seed> <file> <slice> <n> <log>
  ( cd harness && MIRIFLAGS="-Zmiri-disable-isolation -Zmiri-permissive-provenance -Zmiri-num-cpus=$1 -Zmiri-seed=$2" \
      cargo +nightly miri run --offline --target-dir "$ROOT/work/target-miri" -- mirileg $ID "$3" $4 $5 ) > "$6" 2>&1
}
: > "$W/empty.jsonl"
run_miri 1 0 "$W/empty.jsonl" 0 1 "$W/build.log" || { tail -5 "$W/build.log"; echo "INCONCLUSIVE property=$ID: Miri build of the harness failed"; exit 2; }
pids=()
for j in $(seq 0 $((JOBS-1))); do
  if [ $ID = C17 ]; then run_miri $((1 + j % 4)) $((SEED * 100 + j)) "$W/cases.jsonl" 0 1 "$W/job$j.log" &
  else run_miri $((1 + j % 4)) $((SEED * 100 + j)) "$W/cases.jsonl" $j $JOBS "$W/job$j.log" & fi
  pids+=($!)
done
rc=0; done_total=0; nviol=0
for j in $(seq 0 $((JOBS-1))); do
  wait ${pids[$j]}; r=$?
  d=$(grep -h "MIRILEG-DONE" "$W/job$j.log" | awk '{print $2}'); done_total=$((done_total + ${d:-0}))
  [ $r -eq 0 ] && continue
  last=$(grep "^CASE " "$W/job$j.log" | tail -1 | cut -c6-)
  what=$(grep -m1 -E "Undefined Behavior|memory leaked|Data race|ORACLE-FAILURE|error:" "$W/job$j.log" | cut -c1-220)
  [ -n "$last" ] || { echo "INCONCLUSIVE property=$ID: Miri job $j failed without a case ($what)"; [ $rc -eq 0 ] && rc=2; continue; }
  echo "$last" > "$W/single$j.jsonl"
  cpus=$((1 + j % 4))
  if run_miri $cpus $((SEED * 100 + j)) "$W/single$j.jsonl" 0 1 "$W/single$j.log"; then
    echo "INCONCLUSIVE property=$ID: Miri job $j reported '$what' but its last case passes alone (num-cpus $cpus)"; [ $rc -eq 0 ] && rc=2
  else
    what=$(grep -m1 -E "Undefined Behavior|memory leaked|Data race|ORACLE-FAILURE" "$W/single$j.log" | cut -c1-220)
    mkdir -p work/violations/$ID; out=work/violations/$ID/miri-job$j.json
    echo "{\"note\":\"fails under Miri (-Zmiri-num-cpus=$cpus -Zmiri-seed=$((SEED * 100 + j))): $(echo $what | tr -d '"\\')\",\"case\":$last}" > "$out"
    echo "VIOLATION property=$ID replay=$ROOT/$out"; echo "  reason: under Miri with $cpus CPUs: $what"
    rc=1; nviol=$((nviol+1))
  fi
done
python3 - "$ID" "$done_total" "$N" "$nviol" "$JOBS" "$STRIDE" <<'PY'
import json,sys,os
i,done,n,nv,jobs,stride=sys.argv[1:]
p=os.path.join(os.environ.get("GV_ROOT","/verif"),"evidence",i+".json")
try:
    e=json.load(open(p))
    e["coverage"]["miri_leg"]={"cases_in_file":int(n),"case_executions":int(done),"jobs":int(jobs),"stride":int(stride),"violations":int(nv),
      "note":"cases run under `cargo +nightly miri run` with -Zmiri-num-cpus in 1..4 and a different -Zmiri-seed (thread schedule) per job; for C17 every job runs every case"}
    e["coverage"]["evaluations"]=e["coverage"]["evaluations"]+int(done)
    e["violations"]=e.get("violations",0)+int(nv)
    json.dump(e,open(p,"w"),indent=1)
except Exception as ex:
    print("note: could not merge Miri stats:",ex)
PY
echo "$ID Miri leg: $done_total case executions ($N cases in file, $JOBS jobs), $nviol violation(s)"
exit $rc
