#!/usr/bin/env python3
"""Regenerates /verif/MANIFEST.json from the table below (single source of truth)."""
import json, os, sys
ROOT = os.path.dirname(os.path.dirname(os.path.abspath(__file__)))

# id -> (technique, level text, level note, design ref)
PBT = "property-based testing (proptest strategies, seeded ChaCha, 16 worker processes, shrinking + greedy post-shrink)"
ENUM = "small-scope exhaustive enumeration"
def L(what, bound):
    return ("Generated-input search against an explicit oracle: " + what + " Bounds: " + bound +
            " A green run means no counter-example among the cases counted in the evidence file (exhaustive only where the evidence says so); it is not a proof.")
CLAIMED = {
 "C01": (PBT + "; stateful / model-based: generated operation histories interpreted against a BTreeSet model after every step",
         L("operation histories (add_arc, add_arc_weighted, remove_arc, toggle with valid and invalid arguments) on six representations from five kinds of start digraph are applied to the implementation and to a plain set-of-arcs model; after every step order, vertices, arcs, weights, size, has_arc and arc_weight over all pairs are compared, rejected calls must panic and change nothing, and the final digraph must == one built afresh.", "order <= 24/70 (1 case in 25 at 17..140; huge leg 200..3100 with <= 30 steps), <= 40/120 steps; thorough adds a libFuzzer campaign (target history, 12 x 250k runs)."),
         "Trusts the BTreeMap model and the per-representation admission rule written from the property text; panic messages are not compared.",
         "DESIGN.md section 4, C01"),
 "C02": (PBT + " + " + ENUM + "; oracle: direct definitions over the abstract arc set",
         L("every query of the property (order ... max/min degrees, has_walk on genuine, corrupted and out-of-V vertex sequences, total queries on ids outside V) is compared with its definition on five representations and on non-contiguous AdjacencyMap digraphs, under a generated CPU count; the digraph must be unchanged afterwards.", "order <= 40/130 (1 in 25 at 17..140); huge leg 200..3100 vertices with sampled per-vertex queries; all digraphs of order <= 3/4 exhaustively."),
         "Trusts the definitions in harness/src/model.rs; queries documented to panic outside V are only called inside V.",
         "DESIGN.md section 4, C02"),
 "C03": (PBT + " + " + ENUM + "; oracle: dynamic-programming shortest-walk reference",
         L("DijkstraDist::distances() and the Dijkstra / DijkstraDist item sequences are compared with an independent walk-length dynamic programme (exact distances, usize::MAX exactly at unreachable vertices, each reachable vertex once, none unreachable, non-decreasing distance); the iterators are also consumed through count / last / fold / nth after k steps and through mid-iteration clones; weights include a big-M class (one arc about usize::MAX/2).", "order <= 12/40 (1 in 60 at 17..140), weights up to 2^40; every digraph of order <= 3 (quick) / <= 4 (thorough) with weights 0,1,2 exhaustively."),
         "Trusts the reference dynamic programme (cross-checked against simple-path enumeration) and that walk sums stay below usize::MAX as the property requires.",
         "DESIGN.md section 4, C03"),
 "C04": (PBT + " + " + ENUM + "; oracle: level-set hop distances",
         L("Bfs / BfsDist sequences and BfsDist::distances() on five representations are compared with level sets computed from the definition; the iterators are also consumed through count / last / fold / nth after k steps and through mid-iteration clones.", "order <= 16/60 (1 in 25 at 17..140, so that bit-matrix rows span two and three words); all digraphs of order <= 3/4 x 13 source lists exhaustively."),
         "Order within a level is free; sources are distinct and in range.",
         "DESIGN.md section 4, C04"),
 "C05": (PBT + " + " + ENUM + "; oracle: validity predicates over trees and paths with reference distances",
         L("BfsPred / DijkstraPred predecessors(), item sequences, shortest_path(T) and BfsPred::cycles() are judged by validity predicates (tight arcs dist(u)+w=dist(v); None iff no reachable target; path is a walk from a source to a target of minimum length/weight; every cycle is elementary).", "order <= 12/40; all digraphs of order <= 3 with weights 1,2 x sources x target subsets exhaustively."),
         "Which of several optimal answers is returned is free; cycles() completeness is not claimed (disclaimed by the docs).",
         "DESIGN.md section 4, C05"),
 "C06": (PBT + " + " + ENUM + "; oracle: depth-first-preorder validity predicate; known finding attributed by simulation and searched behind",
         L("every item yielded by Dfs, DfsDist, DfsPred and the forest of predecessors() on five representations must be a legal next step of a depth-first preorder with the right predecessor / depth, and the yielded set must be the reachable set. The recorded defect KF-C06-1 (early None) is attributed by exact comparison with a simulation of the defect; the search continues behind it by resuming the iterator; clones, clone_from and (for complete traversals) count / last / fold / nth must agree with next().", "order <= 16/60; all digraphs of order <= 3/4 x 13 source lists exhaustively."),
         "Trusts the validity predicate (accepts every depth-first preorder) and known_findings.json.",
         "DESIGN.md section 4, C06"),
 "C07": (PBT + " + " + ENUM + "; oracle: dynamic-programming shortest-walk reference incl. negative-circuit detection; differential vs Dijkstra",
         L("BellmanFordMoore::distances() must be None when the reference finds a negative circuit reachable from the source, Some when the digraph has none, and exact whenever Some; arc counts of every residue mod 4, reverse paths needing |V|-1 sweeps, planted negative / zero circuits.", "order <= 14/48 (1 in 80 at 17..140), |w| < 100; all digraphs of order <= 3 with weights -1,0,2 x sources exhaustively."),
         "When a negative circuit exists but is unreachable from the source both None and a correct Some are accepted (the property leaves it open).",
         "DESIGN.md section 4, C07"),
 "C08": (PBT + " + " + ENUM + "; oracle: per-source dynamic programme; differential vs Bellman-Ford-Moore and Dijkstra",
         L("every cell of FloydWarshall::distances() is compared with the reference run from every vertex on digraphs constructed without negative circuits (negative arcs via potentials, zero circuits, unreachable pairs).", "order <= 12/40 (1 in 150 at 17..140: blocked / tiled variants); all digraphs of order <= 3 with weights -1,0,2 without negative circuit exhaustively."),
         "Digraphs with a negative circuit are outside the property and never generated.",
         "DESIGN.md section 4, C08"),
 "C09": (PBT + " + " + ENUM + "; oracle: transitive-closure SCCs",
         L("Tarjan::components() on five representations and on non-contiguous AdjacencyMap digraphs must be pairwise disjoint, cover V and equal the mutual-reachability classes — also on a user-defined representation that enumerates vertices and out-neighbours in scrambled order, and on a second call to the same instance.", "order <= 14/60; all digraphs of order <= 4 (quick) / <= 5 (thorough) exhaustively."),
         "Order of components is free.",
         "DESIGN.md section 4, C09"),
 "C10": (ENUM + " + " + PBT + "; oracle: brute-force enumeration of simple closed paths",
         L("Johnson75::circuits() must contain no duplicate, only elementary circuits written from their smallest vertex, and equal the brute-force set (also on a second call to the same instance); random cases include subdivisions of small dense cores under random relabelling.", "every digraph of order <= 4 (quick) / <= 5 (thorough, 2^20) exhaustively; random order <= 7."),
         "Order is capped at 7 because the reference is exponential; list order is free.",
         "DESIGN.md section 4, C10"),
 "C11": (PBT + " + " + ENUM + "; oracle: set definitions + metamorphic relations (involution, commutativity, associativity, idempotence); CPU count set per case",
         L("complement, converse, union and filter_vertices on every representation that implements them, including pairs of non-contiguous AdjacencyMap digraphs, are compared with their set definitions under a generated CPU count with row counts chosen relative to it; operands must be unchanged, results valid.", "order <= 40/100 (1 in 25 at 17..140; huge leg 200..900); all pairs of digraphs of order <= 3 exhaustively."),
         "Union of fixed-order representations is judged with V = 0..max(order); filter selections always keep a vertex.",
         "DESIGN.md section 4, C11"),
 "C12": (PBT + " + " + ENUM + "; oracle: definitions over the abstract arc set; near-miss generators",
         L("is_complete, is_semicomplete, is_tournament, is_regular, is_balanced, is_symmetric, is_oriented, is_simple, is_subdigraph, is_superdigraph, is_spanning_subdigraph on five representations and relabelled non-contiguous AdjacencyMap digraphs, with generators aimed at near misses (size-preserving non-tournaments, one-pair / one-arc perturbations, foreign arc or vertex).", "order <= 40/90, CPU count 1..16."),
         "Order-0 digraphs are not exercised.",
         "DESIGN.md section 4, C12"),
 "C13": ("generated API programs (systematic sweep of every entry point x argument class + proptest random programs) executed in child processes built with AddressSanitizer and std's unsafe-precondition checks; crash isolation by journalled re-run; counting-allocator leak meter (growth must scale with 8/16/32 repetitions)",
         L("every public entry point is called with vertex arguments in range, = order, = order+1, 1000 and usize::MAX on 21 base digraphs (all six representations, three non-contiguous AdjacencyMap vertex sets), alone (sweep) and in random programs of 1..6 calls; each call must return or unwind, the digraph must stay structurally valid and usable after a panic, and no call may grow the live heap in proportion to its repetitions.", "base order <= 8 (plus stars of 256..258 vertices and a CPU-count segment at 1, 2, 3 CPUs), <= 6 calls; the sweep is exhaustive over its stated entry-point x argument-class table; thorough adds a libFuzzer campaign (target api_program, 12 x 250k runs) and a Miri leg (4500 sweep programs under -Zmiri-num-cpus 1..4)."),
         "Trusts AddressSanitizer + the unsafe-precondition checks to turn out-of-bounds accesses into aborts (in-allocation overreads that neither detects can be missed; the Miri replay leg narrows that gap for the committed corpus). Any unwinding panic counts as the documented panic. Allocation-heavy arguments are excluded; OOM is exit 2.",
         "DESIGN.md section 4, C13"),
 "C14": (ENUM + " of the parameter box + " + PBT + " for larger orders; oracle: closed-form arc sets",
         L("every deterministic generator at every order in the box, in four representations and several CPU counts, is compared with the closed form written from the property text; the representations must agree; inadmissible parameters must panic.", "orders 0..96 (quick) / 0..200 (thorough) exhaustively, (m, n) up to 24/40 squared, random orders up to 300/600."),
         "Trusts closed_form() in harness/src/model.rs as a transcription of the property.",
         "DESIGN.md section 4, C14"),
 "C15": (PBT + " + small enumeration; oracle: structural validity predicates + repeatability (three calls, one from a fresh thread); CPU count set per case",
         L("random_tournament, random_recursive_tree and erdos_renyi in four representations: structural validity, p = 0 / p = 1, panics for p outside [0, 1] (incl. NaN, infinities), equal results for equal arguments in one configuration, next_f64 in [0, 1).", "order <= 64/130, any u64 seed, CPU count 1..16."),
         "The concrete digraph per seed and equality across representations / thread counts are deliberately not asserted.",
         "DESIGN.md section 4, C15"),
 "C16": (PBT + "; oracle: round trips and the abstract model",
         L("all 12 conversions among the unweighted representations (round trips ==), the 8 conversions into AdjacencyListWeighted (weights 1), chains of 2..4 conversions, From<rows> and From<arcs> with valid inputs (duplicates, arbitrary order) and invalid ones (self-loop, out-of-range head, empty).", "order <= 40/70 (1 in 25 at 17..140; huge leg 200..3100)."),
         "An empty arc iterator for EdgeList::from is only required to give a digraph with at least one vertex.",
         "DESIGN.md section 4, C16"),
 "C17": (PBT + " + enumeration over (n, k); oracle: single-threaded definition, identical for every CPU count and repetition; CPU count set with sched_setaffinity before each call",
         L("the eight threaded operations are executed under every CPU count 1..16, with row counts below / equal / just above / far above the count and not a multiple of the chunk size, several times each, and compared with the definition (seeded AdjacencyMap generators: validity and repeatability within one configuration).", "rows <= 60/130 (huge leg: 200..3100 rows), 3/10 repetitions; complete(n) and complement(path(n)) for every n <= 64 x k <= 16 exhaustively; thorough adds a Miri leg in which every case runs under 16 scheduler seeds and 1..4 CPUs with data-race detection."),
         "Natively only the CPU count and repetition vary the interleaving; the Miri leg owns the schedule but only for orders <= 33; a race needing a specific preemption on a large input can be missed.",
         "DESIGN.md section 4, C17"),
 "C18": (PBT + " + " + ENUM + "; oracle: definitions of the metrics over the written cells",
         L("matrices written through IndexMut into DistanceMatrix::new for isize and usize (ties, all-infinite rows, small and MAX infinity) and matrices returned by FloydWarshall: eccentricities, diameter, center, periphery, is_connected, (u, v) addressing, new().", "order <= 8; all 3x3 matrices over a 3-symbol alphabet exhaustively."),
         "Entries never exceed the matrix's infinity value, as the property requires.",
         "DESIGN.md section 4, C18"),
 "C19": (PBT + " + " + ENUM + "; oracle: reference chain walk with a visited set; termination decided by a call-counting predicate, not a clock",
         L("search_by / search on trees, rho-shapes, pure cycles and self-referential vectors with three predicate families; the predicate panics after 2*len+4 calls, which turns non-termination into a deterministic failure.", "length <= 12 (1 in 5 up to 140 / 257); every vector of length <= 4 (quick) / <= 5 (thorough) x start x target exhaustively."),
         "Entries are in range (out-of-range entries belong to C13); predicates are pure.",
         "DESIGN.md section 4, C19"),
 "C20": (PBT + "; oracle: abstract digraph equality over pairs of construction histories",
         L("the same / a near-identical abstract digraph is built along two of six history styles in six representations; ==, !=, cmp, partial_cmp and DefaultHasher output must follow the abstract digraph; a clone must be equal and independent under a generated mutation; is_complete of matrix / edge list on digraphs that became complete through histories.", "order <= 20/64 plus 65, 66; clone_from onto every other order; complement and union styles."),
         "DefaultHasher is the hash observer.",
         "DESIGN.md section 4, C20"),
}
NOT_YET = {}

def main():
    props = [json.loads(l) for l in open(os.path.join(ROOT, "properties.jsonl"))]
    checks, na = [], []
    for p in props:
        i = p["id"]
        if i in CLAIMED:
            tech, text, note, ref = CLAIMED[i]
            checks.append({
                "property_id": i,
                "quick_cmd": f"./check {i} quick",
                "thorough_cmd": f"./check {i} thorough",
                "evidence_file": f"evidence/{i}.json",
                "replay_cmd_template": f"./check {i} --replay {{path}}",
                "engine": "gv",
                "level_claimed": {"category": "exploration", "text": text, "design_ref": ref},
                "level_note": note,
                "technique": tech + ("; thorough tier adds coverage-guided fuzzing (libFuzzer + ASan)" if i in ("C01","C13") else "") + ("; thorough tier adds a Miri leg (schedule and CPU count owned by the interpreter, data-race detection)" if i in ("C13","C17") else ""),
            })
        else:
            na.append({"property_id": i, "reason": NOT_YET.get(i, "check not built yet (work in progress; DESIGN.md section 4 describes the planned generated-input check)")})
    m = {
        "version": 1,
        "setup_cmd": "./setup.sh",
        "hooks": {
            "guard": "graaf_verif",
            "enable": "none needed: every observation point is public API, process status or the allocator; checks build /repo as a plain path dependency",
            "baseline_off_cmd": "cd /repo && cargo nextest run --workspace --no-fail-fast --offline",
            "source_commits": [],
            "add_only": True,
        },
        "engines": [{
            "name": "gv",
            "path": "harness/",
            "serves_properties": sorted(CLAIMED),
            "kind_free_text": "Rust binary: seeded proptest strategies + exhaustive small-scope enumerators drive graaf's public API in 16 worker processes; explicit oracles (abstract digraph model, reference algorithms, validity predicates); shrinking; JSON replay files; crash isolation; AddressSanitizer build and counting-allocator leak meter for C13; sched_setaffinity control of the worker-thread count for C11/C12/C14/C15/C17",
        }],
        "checks": checks,
        "not_applicable": na,
        "notes": "Exit codes of every check: 0 held, 1 violation (VIOLATION line), 2 inconclusive (build failure, watchdog, OOM, generator starvation). Known findings: known_findings.json (read-only at run time). VERIF_SEED selects the PRNG stream; work is fixed by case counts, never by wall-clock quotas.",
    }
    json.dump(m, open(os.path.join(ROOT, "MANIFEST.json"), "w"), indent=1)
    print("claimed", len(checks), "not_applicable", len(na))

if __name__ == "__main__":
    main()
