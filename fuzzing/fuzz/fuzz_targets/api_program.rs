//! libFuzzer target for C13: bytes -> API program -> interpreter.
//! The oracle is inside the target: every call must return or unwind (panics
//! are caught in-target, a panic is an allowed outcome), the digraph must stay
//! structurally valid; AddressSanitizer + std's unsafe-precondition checks
//! turn memory errors into aborts, which libFuzzer saves as crash artifacts.
#![no_main]
use libfuzzer_sys::fuzz_target;
use std::sync::Once;

static INIT: Once = Once::new();

fuzz_target!(|data: &[u8]| {
    INIT.call_once(gv::runner::install_quiet_hook);
    let program = gv::props::c13::program_from_bytes(data);
    if let Err(msg) = gv::probe::run_program(&program) {
        eprintln!("GV-ORACLE-FAILURE C13: {msg}");
        eprintln!("GV-CASE {}", serde_json_string(&program));
        std::process::abort();
    }
});

fn serde_json_string(p: &gv::probe::Program) -> String {
    gv::runner::to_json(p)
}
