//! C15 — seeded random generators are deterministic and always structurally
//! valid.

use crate::{
    ensure,
    model::UModel,
    reprs,
    runner::{guarded, Build, Leg, LegKind, Obs, Prop, Tier, Verdict},
    sys::{self, Cpus},
};
use graaf::{
    gen::prng::Xoshiro256StarStar, AdjacencyList, AdjacencyMap, AdjacencyMatrix, Arcs, EdgeList,
    ErdosRenyi, Order, RandomRecursiveTree, RandomTournament, Size, Vertices,
};
use proptest::prelude::*;
use serde::{Deserialize, Serialize};

#[derive(Clone, Debug, Serialize, Deserialize)]
pub struct Case {
    /// 0 random_tournament, 1 random_recursive_tree, 2 erdos_renyi
    pub gen: u8,
    /// 0 AdjacencyList, 1 AdjacencyMap, 2 AdjacencyMatrix, 3 EdgeList
    pub repr: u8,
    pub order: usize,
    pub seed: u64,
    /// 0 finite value in `p`; 1 NaN; 2 +inf; 3 -inf
    pub p_kind: u8,
    pub p: f64,
    pub cpus: usize,
}

pub struct C15;

pub trait Rand:
    Sized + Clone + Eq + Send + std::fmt::Debug + 'static + RandomTournament + RandomRecursiveTree + ErdosRenyi + Order + Size + Vertices + Arcs
{
}
impl<T> Rand for T where
    T: Sized + Clone + Eq + Send + std::fmt::Debug + 'static + RandomTournament + RandomRecursiveTree + ErdosRenyi + Order + Size + Vertices + Arcs
{
}

fn p_of(c: &Case) -> f64 {
    match c.p_kind {
        1 => f64::NAN,
        2 => f64::INFINITY,
        3 => f64::NEG_INFINITY,
        _ => c.p,
    }
}

fn call<D: Rand>(c: &Case) -> D {
    match c.gen % 3 {
        0 => D::random_tournament(c.order, c.seed),
        1 => D::random_recursive_tree(c.order, c.seed),
        _ => D::erdos_renyi(c.order, p_of(c), c.seed),
    }
}

/// Turns an observation into a model after checking it is a valid digraph on
/// 0..order.
pub fn valid_model<D: Order + Size + Vertices + Arcs>(d: &D, order: usize, what: &str) -> Result<UModel, String> {
    let o = reprs::observe(d);
    ensure!(o.order == order, "{what}: order() = {}, expected {order}", o.order);
    ensure!(o.vertices == (0..order).collect::<Vec<_>>(), "{what}: vertices() = {:?}, expected 0..{order}", o.vertices);
    ensure!(o.size == o.arcs.len(), "{what}: size() = {} but arcs() lists {}", o.size, o.arcs.len());
    let mut m = UModel::contiguous(order);
    for &(u, v) in &o.arcs {
        ensure!(u != v, "{what}: self-loop at {u}");
        ensure!(u < order && v < order, "{what}: arc ({u}, {v}) leaves 0..{order}");
        ensure!(m.a.insert((u, v), ()).is_none(), "{what}: arc ({u}, {v}) listed twice");
    }
    Ok(m)
}

fn run<D: Rand>(c: &Case, name: &str, obs: &mut Obs) -> Verdict {
    let gname = ["random_tournament", "random_recursive_tree", "erdos_renyi"][(c.gen % 3) as usize];
    let p = p_of(c);
    let what = format!("{name}::{gname}({}, {}seed {})", c.order, if c.gen % 3 == 2 { format!("p = {p}, ") } else { String::new() }, c.seed);
    let first = guarded(|| call::<D>(c));
    if c.gen % 3 == 2 && !(0.0..=1.0).contains(&p) {
        ensure!(first.is_err(), "{what} must panic for p outside [0, 1]");
        obs.label("invalid-p (must panic)");
        return Ok(());
    }
    let d = first.map_err(|e| format!("{what} panicked: {e}"))?;
    let m = valid_model(&d, c.order, &what)?;
    match c.gen % 3 {
        0 => ensure!(
            m.is_tournament(),
            "{what} is not a tournament: arcs {:?}",
            m.arcs()
        ),
        1 => {
            ensure!(m.outdeg(0) == 0, "{what}: vertex 0 has out-arcs {:?}", m.out(0));
            for u in 1..c.order {
                let out = m.out(u);
                ensure!(out.len() == 1, "{what}: vertex {u} has {} out-arcs ({out:?}), expected exactly one", out.len());
                ensure!(out[0] < u, "{what}: vertex {u} points to {}, which is not smaller", out[0]);
            }
        }
        _ => {
            if p == 0.0 {
                ensure!(m.size() == 0, "{what} has {} arcs at p = 0", m.size());
            }
            if p == 1.0 {
                ensure!(m.is_complete(), "{what} is not complete at p = 1 ({} arcs)", m.size());
            }
        }
    }
    // a function of its arguments: the second call comes from a fresh thread
    // (which inherits this thread's CPU affinity)
    let cc = c.clone();
    let second: D = std::thread::spawn(move || call::<D>(&cc))
        .join()
        .map_err(|_| format!("{what}: second call panicked"))?;
    ensure!(second == d, "{what}: two calls with equal arguments in the same environment differ:\n   first  {:?}\n   second {:?}", reprs::observe(&d), reprs::observe(&second));
    let third = call::<D>(c);
    ensure!(third == d, "{what}: third call differs from the first");
    Ok(())
}

impl Prop for C15 {
    type Case = Case;
    const ID: &'static str = "C15";
    const NUM: u64 = 15;
    const RULE: &'static str = "generator in {random_tournament, random_recursive_tree, erdos_renyi} x representation in {AdjacencyList, AdjacencyMap, AdjacencyMatrix, EdgeList} x order 1..64 (quick) / 1..130 (thorough) x seed in {0, 1, u64::MAX, uniform} x p in {0, -0.0, 1, 0.5, next above 0.5, uniform [0,1], invalid: -0.1, 1.1, tiny negative, NaN, +-inf} x CPU count 1..=16 (sched_setaffinity; the AdjacencyMap generators are threaded); every case also draws 256 next_f64 values from Xoshiro256StarStar::new(seed). Each valid call is made three times (one from a fresh thread) and compared. Non-trivial = order greater than the CPU count and, for erdos_renyi, 0 < p < 1; distinct = distinct serialised case.";
    const ASSUMPTIONS: &'static [&'static str] = &[
        "the concrete digraph for a seed, equality across representations and across thread counts are not asserted (the property allows them to differ)",
    ];

    fn legs(tier: Tier) -> Vec<Leg> {
        vec![
            Leg {
                name: "random",
                kind: LegKind::Random {
                    cases: tier.pick(10000, 80000),
                },
                workers: 16,
                build: Build::Normal,
            },
            Leg {
                name: "enum",
                kind: LegKind::Enumerated {
                    count: 3 * 4 * 24 * 4,
                },
                workers: 8,
                build: Build::Normal,
            },
            Leg {
                name: "huge",
                kind: LegKind::Random {
                    cases: tier.pick(6, 60),
                },
                workers: 16,
                build: Build::Normal,
            },
        ]
    }

    fn strategy(leg: &str, tier: Tier) -> BoxedStrategy<Case> {
        if leg == "huge" {
            // orders 128..900 (a worker decides thousands of pairs)
            return (0..3_u8, 0..4_u8, 128..=900_usize, any::<u64>(), prop_oneof![Just(0.0_f64), Just(1.0), 0.0..0.05_f64, 0.95..=1.0_f64], 1..=16_usize)
                .prop_map(|(gen, repr, order, seed, p, cpus)| Case {
                    gen,
                    repr,
                    // erdos_renyi near p = 1 builds order^2 arcs: cap it
                    order: if gen == 2 && p > 0.5 { order.min(400) } else { order },
                    seed,
                    p_kind: 0,
                    p,
                    cpus,
                })
                .boxed();
        }
        (
            0..3_u8,
            0..4_u8,
            1..=tier.pick(64_usize, 130),
            prop_oneof![1 => Just(0_u64), 1 => Just(1_u64), 1 => Just(u64::MAX), 7 => any::<u64>()],
            prop_oneof![
                2 => Just((0_u8, 0.0_f64)),
                1 => Just((0_u8, -0.0_f64)),
                2 => Just((0, 1.0)),
                1 => Just((0, 0.5)),
                1 => Just((0, 0.500_000_000_000_000_1)),
                8 => (0.0..=1.0_f64).prop_map(|p| (0_u8, p)),
                1 => Just((0, -0.1)),
                1 => Just((0, 1.1)),
                1 => Just((0, -1e-300)),
                1 => Just((0, 1.000_000_000_000_000_2)),
                1 => Just((1, 0.0)),
                1 => Just((2, 0.0)),
                1 => Just((3, 0.0)),
            ],
            1..=16_usize,
        )
            .prop_map(|(gen, repr, order, seed, (p_kind, p), cpus)| Case {
                gen,
                repr,
                order,
                seed,
                p_kind,
                p,
                cpus,
            })
            .boxed()
    }

    fn enum_case(_leg: &str, _tier: Tier, idx: u64) -> Option<Case> {
        // small orders x all generators x all representations x a few seeds
        let gen = (idx % 3) as u8;
        let repr = ((idx / 3) % 4) as u8;
        let order = 1 + ((idx / 12) % 24) as usize;
        let s = (idx / (12 * 24)) % 4;
        Some(Case {
            gen,
            repr,
            order,
            seed: [0, 1, u64::MAX, 0x9E37_79B9_7F4A_7C15][s as usize],
            p_kind: 0,
            p: [0.0, 1.0, 0.3, 0.75][s as usize],
            cpus: 1 + (idx % 5) as usize,
        })
    }

    fn check(c: &Case, obs: &mut Obs) -> Verdict {
        ensure!(c.order >= 1, "harness: order 0");
        let cpus = Cpus::new();
        let name = ["AdjacencyList", "AdjacencyMap", "AdjacencyMatrix", "EdgeList"][(c.repr % 4) as usize];
        let (res, seen) = cpus.with(c.cpus, sys::rot(), || -> Verdict {
            match c.repr % 4 {
                0 => run::<AdjacencyList>(c, name, obs),
                1 => run::<AdjacencyMap>(c, name, obs),
                2 => run::<AdjacencyMatrix>(c, name, obs),
                _ => run::<EdgeList>(c, name, obs),
            }
        });
        res?;
        // next_f64 in [0, 1)
        let mut rng = Xoshiro256StarStar::new(c.seed);
        for i in 0..256 {
            let x = rng.next_f64();
            ensure!(
                (0.0..1.0).contains(&x),
                "Xoshiro256StarStar::new({}).next_f64() output #{i} = {x} is outside [0, 1)",
                c.seed
            );
        }
        let p = p_of(c);
        let valid_p = (0.0..=1.0).contains(&p);
        obs.label(format!("gen={}", ["random_tournament", "random_recursive_tree", "erdos_renyi"][(c.gen % 3) as usize]));
        obs.label(format!("repr={name}"));
        obs.label(format!("cpus-seen={seen}"));
        if c.order > seen {
            obs.label("order > threads");
        }
        if c.order > seen && (c.gen % 3 != 2 || (valid_p && p > 0.0 && p < 1.0)) {
            obs.nontrivial();
        }
        Ok(())
    }
}
