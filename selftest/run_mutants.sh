#!/bin/bash
# selftest/run_mutants.sh [<isolated dir>]  — runs every selftest/mutants/*.diff in an isolated copy
# (created with selftest/isolated.sh; default /tmp/iso2): the repository's own test suite with the
# mutant (informational), then the quick check of each property listed in the .props file.
ISO=${1:-/tmp/iso2}
[ -d $ISO/verif ] || /verif/selftest/isolated.sh $ISO
OUT=/verif/selftest/results.tsv
: > $OUT
export CARGO_NET_OFFLINE=true
for d in /verif/selftest/mutants/*.diff; do
  name=$(basename $d .diff); props=$(cat /verif/selftest/mutants/$name.props)
  git -C $ISO/repo checkout -q -- .
  git -C $ISO/repo apply $d || { echo -e "$name\tAPPLY-FAILED" >> $OUT; continue; }
  if [ -z "${SKIP_SUITE:-}" ]; then
    suite=$(cd $ISO/repo && timeout 600 cargo nextest run --workspace --no-fail-fast --offline 2>&1 | grep -E "Summary|error: could not compile" | tail -1 | sed 's/.*Summary \[[^]]*\] *//' | cut -c1-60)
  else suite="(not run)"; fi
  for ID in $props; do
    o=$(cd $ISO/verif && GV_ROOT=$ISO/verif ./check $ID quick 2>&1); rc=$?
    reason=$(echo "$o" | grep -m1 'reason:' | cut -c1-160)
    echo -e "$name\t$ID\texit=$rc\t$suite\t$reason" >> $OUT
  done
  git -C $ISO/repo checkout -q -- .
done
echo DONE >> $OUT
