#!/bin/bash
# selftest/confirm_seed.sh <ID> <variant> [extra check IDs...]
# Confirms a sub-agent's seeded change in its own scratch worktree (/tmp/wt-<ID>): suite passes with the
# change, demo fails with it and passes without; then runs our checks against it in the isolated copy
# /tmp/iso1 (never /repo).  Writes /verif/seeded/<ID>-<variant>/.
set -u
ID=$1; V=$2; shift 2; EXTRA="$*"
SRC=/tmp/seed-$ID/$V; WT=/tmp/wt-$ID; ISO=${ISO:-/tmp/iso1}
OUT=/verif/seeded/$ID-$V; mkdir -p $OUT
export CARGO_NET_OFFLINE=true
[ -f $SRC/patch.diff ] || { echo "no patch for $ID/$V"; exit 3; }
cd $WT && git checkout -q -- . && rm -rf tests/seed_demo_*.rs
git apply --check $SRC/patch.diff || { echo "patch does not apply"; exit 3; }
git apply $SRC/patch.diff
touched=$(git diff --name-only | tr '\n' ' ')
suite=$(cargo nextest run --workspace --no-fail-fast --offline 2>&1 | grep -E "Summary|could not compile" | tail -1 | sed 's/.*Summary \[[^]]*\] *//')
mkdir -p tests && cp $SRC/seed_demo.rs tests/seed_demo_$V.rs
with=$(cargo test --offline --test seed_demo_$V 2>&1 | grep -E "^test result|could not compile" | tail -1)
git checkout -q -- src
without=$(cargo test --offline --test seed_demo_$V 2>&1 | grep -E "^test result|could not compile" | tail -1)
rm -f tests/seed_demo_$V.rs; rmdir tests 2>/dev/null
echo "suite with change: $suite"; echo "demo with change:    $with"; echo "demo without change: $without"
# our checks, in the isolated copy
rsync -a --delete /verif/harness/src/ $ISO/verif/harness/src/; cp /verif/check $ISO/verif/check; rsync -a --delete /verif/replays/ $ISO/verif/replays/; cp /verif/known_findings.json $ISO/verif/
cd $ISO/repo && git checkout -q -- . && git apply $SRC/patch.diff || { echo "patch does not apply to iso repo"; exit 3; }
results=""
case $ID in X01) PROP=C13;; X02) PROP=C02;; X03) PROP=C01;; X*) PROP=${PROP:?set PROP};; *) PROP=$ID;; esac
for C in $PROP $EXTRA; do
  o=$(cd $ISO/verif && GV_ROOT=$ISO/verif ./check $C ${TIER:-quick} 2>&1); rc=$?
  reason=$(echo "$o" | grep -m1 'reason:' | cut -c1-260 | sed 's/"/'"'"'/g')
  echo "check $C exit=$rc $reason"
  results="$results{\"check\":\"$C\",\"tier\":\"${TIER:-quick}\",\"exit\":$rc,\"first_reason\":\"$(echo $reason | tr -d '\\' )\"},"
  if [ $rc -eq 1 ]; then f=$(echo "$o" | grep -m1 '^VIOLATION' | sed 's/.*replay=//'); cp "$f" $OUT/replay-$C.json 2>/dev/null; fi
done
cd $ISO/repo && git checkout -q -- .
cp $SRC/patch.diff $SRC/seed_demo.rs $OUT/; cp $SRC/notes.md $OUT/agent_notes.md 2>/dev/null
cat > $OUT/meta.json <<EOM
{
 "property": "$PROP", "seed_id": "$ID", "variant": "$V", "files_touched": "$touched",
 "written_by": "independent sub-agent given only the property text and a scratch worktree",
 "suite_with_change": "$suite",
 "demo_with_change": "$with",
 "demo_without_change": "$without",
 "needs_to_manifest": "see agent_notes.md",
 "our_checks": [${results%,}]
}
EOM
