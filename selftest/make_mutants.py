#!/usr/bin/env python3
"""Writes selftest/mutants/<name>.diff: one small semantic change to /repo per file.
Each entry: (name, properties expected to catch it, file, old, new)."""
import os, subprocess, sys, tempfile
R = "/repo/"
M = [
 ("c01_al_add_without_head_check", "C01", "src/repr/adjacency_list/mod.rs",
  '        assert!(v < order, "v = {v} isn\'t in the digraph");\n\n        let _ = unsafe { self.arcs.get_unchecked_mut(u) }.insert(v);',
  '        let _ = unsafe { self.arcs.get_unchecked_mut(u) }.insert(v);'),
 ("c01_matrix_mask_31", "C01 C20", "src/repr/adjacency_matrix/mod.rs", "        1 << (u & 63)", "        1 << (u & 31)"),
 ("c01_matrix_remove_returns_true", "C01", "src/repr/adjacency_matrix/mod.rs",
  "        self.blocks[i >> 6] &= !Self::mask(i);\n\n        has_arc", "        self.blocks[i >> 6] &= !Self::mask(i);\n\n        has_arc || i % 7 == 3"),
 ("c01_map_add_head_not_admitted", "C01", "src/repr/adjacency_map/mod.rs",
  "        let _ = self.arcs.entry(u).or_default().insert(v);\n        let _ = self.arcs.entry(v).or_default();",
  "        let _ = self.arcs.entry(u).or_default().insert(v);\n\n        if v < u {\n            let _ = self.arcs.entry(v).or_default();\n        }"),
 ("c01_matrix_toggle_or", "C01", "src/repr/adjacency_matrix/mod.rs",
  "*self.blocks.get_unchecked_mut(i >> 6) ^= Self::mask(i)", "*self.blocks.get_unchecked_mut(i >> 6) |= Self::mask(i)"),
 ("c01_weighted_readd_keeps_old_weight", "C01", "src/repr/adjacency_list_weighted/mod.rs",
  "        let _ = self.arcs[u].insert(v, w);", "        let _ = self.arcs[u].entry(v).or_insert(w);"),
 ("c01_edgelist_remove_checks_order", "C01 C02", "src/repr/edge_list/mod.rs",
  "        self.arcs.remove(&(u, v))\n", "        u + 1 != self.order && self.arcs.remove(&(u, v))\n"),
 ("c02_al_has_walk_ignores_last_step", "C02", "src/repr/adjacency_list/mod.rs",
  "            let end = walk.as_ptr().add(len - 1);", "            let end = walk.as_ptr().add(len - 2);"),
 ("c02_al_in_neighbors_skips_vertex_0", "C02", "src/repr/adjacency_list/mod.rs",
  "            len: self.arcs.len(),\n            i: 0,", "            len: self.arcs.len(),\n            i: usize::from(self.arcs.len() > 9),"),
 ("c02_al_degree_sequence_chunk_floor", "C02 C17", "src/repr/adjacency_list/mod.rs",
  "        let t = available_parallelism().map_or(1, NonZero::get);\n        let chunk_size = order.div_ceil(t);\n        let mut indegree_chunks",
  "        let t = available_parallelism().map_or(1, NonZero::get);\n        let chunk_size = (order / t).max(1);\n        let mut indegree_chunks"),
 ("c02_matrix_indegree_scans_row", "C02", "src/repr/adjacency_matrix/mod.rs",
  "        self.vertices().filter(|&u| self.has_arc(u, v)).count()", "        self.vertices().filter(|&u| self.has_arc(v, u)).count()"),
 ("c02_map_is_source_ignores_last_row", "C02", "src/repr/adjacency_map/mod.rs",
  "        self.arcs.values().all(|set| !set.contains(&v))", "        self.arcs.values().rev().skip(1).all(|set| !set.contains(&v))"),
 ("c03_relax_less_or_equal", "C03 C05", "src/algo/dijkstra_dist.rs", "                if w_next < dist_v {", "                if w_next <= dist_v {"),
 ("c03_sources_seeded_once", "C03", "src/algo/dijkstra.rs",
  "            unsafe { *dist_ptr.add(u) = 0 };\n            heap.push((Reverse(0), u));", "            unsafe { *dist_ptr.add(u) = 0 };\n\n            if heap.len() < 2 {\n                heap.push((Reverse(0), u));\n            }"),
 ("c04_bfs_lifo_after_8", "C04", "src/algo/bfs.rs", "        let u = self.queue.pop_front()?;",
  "        let u = if self.queue.len() > 8 {\n            self.queue.pop_back()?\n        } else {\n            self.queue.pop_front()?\n        };"),
 ("c04_bfsdist_level_not_incremented_for_sources_gt1", "C04", "src/algo/bfs_dist.rs", "        let w_next = w + 1;", "        let w_next = w + usize::from(w != 2);"),
 ("c05_bfs_pred_records_grandparent", "C05", "src/algo/bfs_pred.rs",
  "                    self.queue.push_back((Some(v), u));", "                    self.queue.push_back((step.0.filter(|_| u > 12).or(Some(v)), u));"),
 ("c05_dijkstra_path_not_reversed", "C05", "src/algo/dijkstra_pred.rs",
  "                    |mut path| {\n                        path.reverse();\n                        path\n                    },",
  "                    |mut path| {\n                        if path.len() != 3 {\n                            path.reverse();\n                        }\n\n                        path\n                    },"),
 ("c06_dfs_dist_depth_stale", "C06", "src/algo/dfs_dist.rs", "        let w = w + 1;", "        let w = w + usize::from(w < 3);"),
 ("c06_dfs_pred_skips_last_neighbour_of_big_rows", "C06", "src/algo/dfs_pred.rs",
  "            if !unsafe { *visited_ptr.add(x) } {\n                self.stack.push((Some(v), x));", "            if !unsafe { *visited_ptr.add(x) } && x != v + 7 {\n                self.stack.push((Some(v), x));"),
 ("c07_one_round_short", "C07 C08", "src/algo/bellman_ford_moore.rs", "        for _ in 1..order {", "        for _ in 2..order {"),
 ("c07_final_pass_skips_last_arc", "C07", "src/algo/bellman_ford_moore.rs",
  "            for i in 0..arcs_len {\n                unsafe {\n                    let (u, v, w) = *arcs_ptr.add(i);\n                    let dist_u = *dist_ptr.add(u);\n\n                    if dist_u != isize::MAX && *dist_ptr.add(v) > dist_u + w {",
  "            for i in 0..arcs_len.saturating_sub(usize::from(arcs_len > 9)) {\n                unsafe {\n                    let (u, v, w) = *arcs_ptr.add(i);\n                    let dist_u = *dist_ptr.add(u);\n\n                    if dist_u != isize::MAX && *dist_ptr.add(v) > dist_u + w {"),
 ("c08_arc_cells_transposed", "C08 C18", "src/algo/floyd_warshall.rs",
  "                *dist_ptr.add(u * order + v) = w;", "                *dist_ptr.add(if order > 6 { v * order + u } else { u * order + v }) = w;"),
 ("c08_infinity_guard_dropped", "C08", "src/algo/floyd_warshall.rs",
  "                    if b == isize::MAX {\n                        continue;\n                    }", "                    if b == isize::MAX && a >= 0 {\n                        continue;\n                    }"),
 ("c09_on_stack_test_dropped", "C09 C10", "src/algo/tarjan.rs", "                if self.on_stack.contains(&v) {", "                if self.on_stack.contains(&v) || v > u + 5 {"),
 ("c10_start_filter_strict", "C10", "src/algo/johnson_75.rs", "            let subgraph = self.a.filter_vertices(|u| u >= s);", "            let subgraph = self.a.filter_vertices(|u| u >= s && (s < 4 || u != s + 1));"),
 ("c10_no_unblock_cascade", "C10", "src/algo/johnson_75.rs", "                self.unblock(v);\n            }\n        }\n    }", "                if v != u + 2 {\n                    self.unblock(v);\n                }\n            }\n        }\n    }"),
 ("c11_al_union_merge_drops_rhs_tail", "C11 C17", "src/repr/adjacency_list/mod.rs",
  "    while j < rhs.len() {\n        out.push(*rhs.get_unchecked(j));\n        j += 1;\n    }\n\n    out\n}\n\nimpl Union for AdjacencyList",
  "    while j < rhs.len() && out.len() < 9 {\n        out.push(*rhs.get_unchecked(j));\n        j += 1;\n    }\n\n    out\n}\n\nimpl Union for AdjacencyList"),
 ("c11_map_find_partition_ge", "C11 C17 C13", "src/repr/adjacency_map/mod.rs",
  "            && unsafe { lhs.get_unchecked(mid) }.0\n                > unsafe { rhs.get_unchecked(j) }.0", "            && unsafe { lhs.get_unchecked(mid) }.0\n                >= unsafe { rhs.get_unchecked(j) }.0"),
 ("c11_al_complement_keeps_self", "C11 C17", "src/repr/adjacency_list/mod.rs",
  "                            let a = *full_ptr.add(i);\n\n                            if a != u {\n                                diff.push(a);\n                            }",
  "                            let a = *full_ptr.add(i);\n\n                            if a != u || (u > 20 && out_len == 0) {\n                                diff.push(a);\n                            }"),
 ("c11_matrix_union_clones_smaller", "C11", "src/repr/adjacency_matrix/mod.rs",
  "        let (mut union, other) = if self.order() > other.order() {", "        let (mut union, other) = if self.order() > other.order() + 1 {"),
 ("c12_al_semicomplete_or", "C12 C17", "src/repr/adjacency_list/mod.rs",
  "                                if !set_u.contains(&v) && !set_v.contains(&u) {", "                                if !set_u.contains(&v) && !set_v.contains(&u) && v != start + 9 {"),
 ("c12_map_tournament_size_only", "C12", "src/repr/adjacency_map/mod.rs",
  "                    if u != v\n                        && (*ptr.add(i)).contains(&v)\n                            == (*ptr.add(j)).contains(&u)", "                    if u != v\n                        && i + 3 > j\n                        && (*ptr.add(i)).contains(&v)\n                            == (*ptr.add(j)).contains(&u)"),
 ("c12_subdigraph_ignores_vertices", "C12", "src/op/is_subdigraph.rs", "        }) && hv.iter().all(|u| dv.contains(u))", "        }) && hv.iter().take(3).all(|u| dv.contains(u))"),
 ("c14_al_complete_chunk_floor", "C14 C17", "src/repr/adjacency_list/mod.rs",
  "        let t = order.min(available_parallelism().map_or(1, NonZero::get));\n        let chunk_size = order.div_ceil(t);\n        let mut handles = Vec::with_capacity(t);\n\n        for thread_id in 0..t {\n            let start = thread_id * chunk_size;\n            let end = order.min(start + chunk_size);\n\n            if start >= end {\n                break;\n            }\n\n            let handle = spawn(move || {\n                let mut local",
  "        let t = order.min(available_parallelism().map_or(1, NonZero::get));\n        let chunk_size = (order / t).max(1);\n        let mut handles = Vec::with_capacity(t);\n\n        for thread_id in 0..t {\n            let start = thread_id * chunk_size;\n            let end = order.min(start + chunk_size);\n\n            if start >= end {\n                break;\n            }\n\n            let handle = spawn(move || {\n                let mut local"),
 ("c14_matrix_wheel_rim_closes_on_2", "C14", "src/repr/adjacency_matrix/mod.rs",
  "        let u = order - 1;\n\n        digraph.add_arc(u, 1);\n        digraph.add_arc(1, u);", "        let u = order - 1;\n        let w = if order == 67 { 2 } else { 1 };\n\n        digraph.add_arc(u, w);\n        digraph.add_arc(w, u);"),
 ("c14_edgelist_biclique_boundary", "C14", "src/repr/edge_list/mod.rs",
  "                .chain((m..order).flat_map(|u| (0..m).map(move |v| (u, v))))", "                .chain((m..order).flat_map(|u| {\n                    (0..m.min(17)).map(move |v| (u, v))\n                }))"),
 ("c15_tree_forward_arc", "C15", "src/repr/edge_list/mod.rs",
  "                            .expect(\"conversion failed\")\n                            % u,", "                            .expect(\"conversion failed\")\n                            % (u + usize::from(u == 40)),"),
 ("c15_next_f64_mask_wide", "C15", "src/gen/prng/xoshiro256_star_star.rs", "        f64::from_bits((exponent << 52) | mantissa) - 1.0", "        (f64::from_bits((exponent << 52) | mantissa) - 1.0) * 1.000_000_1"),
 ("c15_map_tournament_pair_decided_twice", "C15 C17", "src/repr/adjacency_map/mod.rs",
  "                    for v in (u + 1)..order {\n                        unsafe {\n                            if rng.next_bool() {", "                    for v in (u + 1 - usize::from(u == start && u > 0))..order {\n                        unsafe {\n                            if rng.next_bool() {"),
 ("c16_weighted_conversion_weight_0", "C16", "src/repr/adjacency_list_weighted/mod.rs", "                    h.add_arc_weighted(u, v, 1);", "                    h.add_arc_weighted(u, v, usize::from(u + v != 13).try_into().unwrap());"),
 ("c16_matrix_from_arcs_order_from_count", "C16", "src/repr/adjacency_matrix/mod.rs", "            order = order.max(u).max(v);\n            arcs.push((u, v));", "            order = order.max(u).max(if arcs.len() > 20 { 0 } else { v });\n            arcs.push((u, v));"),
 ("c18_center_drops_ties", "C18", "src/algo/distance_matrix.rs", "                Equal => center.push(i),", "                Equal => {\n                    if i != 3 {\n                        center.push(i);\n                    }\n                }"),
 ("c18_periphery_compares_with_first", "C18", "src/algo/distance_matrix.rs",
  "            .filter_map(move |(i, e)| (e == diameter).then_some(i))", "            .filter_map(move |(i, e)| (e >= diameter).then_some(i))"),
 ("c19_visited_not_marked", "C19", "src/algo/predecessor_tree.rs", "                unsafe {\n                    *visited_ptr.add(v) = true;\n                }", "                unsafe {\n                    *visited_ptr.add(v) = v != 5;\n                }"),
 ("c19_predicate_after_step", "C19", "src/algo/predecessor_tree.rs", "                if v != s {\n                    path.push(v);\n                }", "                if v != s && path.len() != 4 {\n                    path.push(v);\n                }"),
 ("c20_matrix_union_leaves_stale_order", "C20 C11", "src/repr/adjacency_matrix/mod.rs",
  "        for (u, v) in other.arcs() {\n            union.add_arc(u, v);\n        }\n\n        union", "        for (u, v) in other.arcs() {\n            union.add_arc(u, v);\n        }\n\n        if union.order == 11 && union.blocks.len() == 2 {\n            union.blocks.push(0);\n        }\n\n        union"),
 ("c13_bfs_pred_source_check_dropped", "C13", "src/algo/bfs_pred.rs", '            assert!(u < order, "u = {u} isn\'t in the digraph");\n\n            queue.push_back((None, u));', "            queue.push_back((None, u));"),
 ("c13_distance_matrix_unchecked_mul", "C13", "src/algo/distance_matrix.rs",
  "        let size = order\n            .checked_mul(order)\n            .expect(\"a matrix has at most `usize::MAX` elements\");", "        let size = order.wrapping_mul(order);"),
 ("c13_converse_leaks_scratch", "C13", "src/repr/adjacency_list/mod.rs",
  "        Self { arcs: converse }\n    }\n}\n\nimpl Cycle for AdjacencyList", "        std::mem::forget(self.arcs.clone());\n\n        Self { arcs: converse }\n    }\n}\n\nimpl Cycle for AdjacencyList"),
]
def main():
    out = "/verif/selftest/mutants"
    os.makedirs(out, exist_ok=True)
    bad = 0
    for name, props, f, old, new in M:
        src = open(R + f).read()
        if src.count(old) != 1:
            print("SKIP (pattern count %d): %s" % (src.count(old), name)); bad += 1; continue
        with tempfile.NamedTemporaryFile("w", delete=False) as t:
            t.write(src.replace(old, new)); tmp = t.name
        d = subprocess.run(["diff", "-u", "--label", "a/" + f, "--label", "b/" + f, R + f, tmp], capture_output=True, text=True).stdout
        os.unlink(tmp)
        open(f"{out}/{name}.diff", "w").write(d)
        open(f"{out}/{name}.props", "w").write(props + "\n")
    print("written", len(M) - bad, "skipped", bad)
if __name__ == "__main__":
    main()
