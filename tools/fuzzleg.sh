#!/bin/bash
# tools/fuzzleg.sh <ID> <runs-per-job> <jobs>  — coverage-guided leg (libFuzzer + ASan) for C13 / C01.
# Prints VIOLATION lines and exits 1 if a saved crashing input reproduces through `gv replay`;
# exits 2 if something went wrong that is not a violation; merges its counts into evidence/<ID>.json.
set -u
ID=$1; RUNS=${2:-200000}; JOBS=${3:-8}
ROOT="${GV_ROOT:-/verif}"; cd "$ROOT"
case $ID in C13) T=api_program;; C01) T=history;; *) exit 0;; esac
export CARGO_NET_OFFLINE=true
W=$ROOT/work/fuzz/$T; rm -rf "$W"; mkdir -p "$W/artifacts" "$W/logs"
( cd fuzzing && cargo +nightly fuzz build --target-dir "$ROOT/work/target-fuzz" $T ) > "$W/logs/build.log" 2>&1 \
  || { tail -5 "$W/logs/build.log"; echo "INCONCLUSIVE property=$ID: fuzz target build failed"; exit 2; }
BIN=$ROOT/work/target-fuzz/x86_64-unknown-linux-gnu/release/$T
SEED=$(( ${VERIF_SEED:-0} * 1000 + 17 ))
pids=()
for j in $(seq 1 $JOBS); do
  mkdir -p "$W/corpus$j"; cp -r fuzzing/corpus/$T/. "$W/corpus$j/" 2>/dev/null
  # odd jobs start from the committed seed corpus, even jobs from an empty corpus
  [ $((j % 2)) -eq 0 ] && rm -rf "$W/corpus$j"/*
  ASAN_OPTIONS=detect_leaks=0:allocator_may_return_null=1 "$BIN" "$W/corpus$j" -runs=$RUNS -seed=$((SEED + j)) \
     -max_len=384 -len_control=0 -artifact_prefix="$W/artifacts/" -print_final_stats=1 > "$W/logs/job$j.log" 2>&1 &
  pids+=($!)
done
for p in "${pids[@]}"; do wait $p; done
execs=$(grep -h "stat::number_of_executed_units" "$W"/logs/job*.log | awk '{s+=$2} END{print s+0}')
cov=$(grep -h " cov: " "$W"/logs/job*.log | sed 's/.* cov: \([0-9]*\).*/\1/' | sort -n | tail -1)
corp=$(ls "$W"/corpus*/ 2>/dev/null | wc -l)
rc=0; nviol=0
for a in "$W"/artifacts/*; do
  [ -f "$a" ] || continue
  case "$(basename $a)" in crash-*|oom-*|timeout-*) ;; *) continue;; esac
  mkdir -p work/violations/$ID
  out=work/violations/$ID/fuzz-$(basename $a).json
  work/target/release/gv decode-fuzz $ID "$a" > "$out"
  if [ $ID = C13 ] && [ -x work/target-asan/x86_64-unknown-linux-gnu/release/gv ]; then R=work/target-asan/x86_64-unknown-linux-gnu/release/gv; else R=work/target/release/gv; fi
  ASAN_OPTIONS=exitcode=77:detect_leaks=0:allocator_may_return_null=1 $R replay $ID "$out" > "$W/logs/replay.log" 2>&1; r=$?
  if [ $r -eq 1 ] || [ $r -eq 77 ] || [ $r -ge 128 ]; then
    echo "VIOLATION property=$ID replay=$ROOT/$out"; echo "  reason: libFuzzer input $(basename $a) reproduces (replay exit $r): $(grep -m1 -E 'FAILED|ERROR: AddressSanitizer|unsafe precondition' "$W/logs/replay.log" | cut -c1-200)"
    rc=1; nviol=$((nviol+1))
  else
    case "$(basename $a)" in
      crash-*) echo "INCONCLUSIVE property=$ID: libFuzzer artifact $(basename $a) did not reproduce through gv replay (exit $r)"; [ $rc -eq 0 ] && rc=2;;
      *) echo "note: $(basename $a) (resource limit inside the fuzzer) ignored";;
    esac
  fi
done
python3 - "$ID" "$execs" "${cov:-0}" "$corp" "$nviol" "$JOBS" "$RUNS" <<'PY'
import json,sys
i,execs,cov,corp,nv,jobs,runs=sys.argv[1:]
import os
p=os.path.join(os.environ.get("GV_ROOT","/verif"),"evidence",i+".json")
try:
    e=json.load(open(p))
    e["coverage"]["libfuzzer_leg"]={"target":{"C13":"api_program","C01":"history"}[i],"executions":int(execs),"max_cov_edges":int(cov),"corpus_files":int(corp),"jobs":int(jobs),"runs_per_job":int(runs),"reproduced_crashes":int(nv),
        "note":"bytes -> same raw-value mapping as the proptest strategy -> same interpreter and oracle, built with AddressSanitizer; odd jobs start from fuzzing/corpus, even jobs from an empty corpus"}
    e["coverage"]["evaluations"]=e["coverage"]["evaluations"]+int(execs)
    e["violations"]=e.get("violations",0)+int(nv)
    json.dump(e,open(p,"w"),indent=1)
except Exception as ex:
    print("note: could not merge fuzz stats:",ex)
PY
echo "$ID libFuzzer leg ($T): $execs executions in $JOBS jobs, max cov $cov, $nviol reproduced crash(es)"
exit $rc
