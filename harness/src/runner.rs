//! Seeded multi-process runner: workers, shrinking, replay, crash isolation,
//! evidence, known findings.

use crate::sys;
use proptest::{
    strategy::{BoxedStrategy, Strategy},
    test_runner::{Config, RngAlgorithm, TestCaseError, TestError, TestRng, TestRunner},
};
use serde::{de::DeserializeOwned, Deserialize, Serialize};
use serde_json::{json, Value};
use std::{
    cell::RefCell,
    collections::{BTreeMap, BTreeSet},
    fmt::Debug,
    io::Write,
    panic::{catch_unwind, AssertUnwindSafe},
    path::{Path, PathBuf},
    process::{Command, Stdio},
    time::{Duration, Instant},
};

/// Root of the verification tree: `/verif`, or `$GV_ROOT` for isolated copies
/// (self-test runs against a scratch copy of the repository).
pub fn verif_root() -> PathBuf {
    PathBuf::from(std::env::var("GV_ROOT").unwrap_or_else(|_| "/verif".to_string()))
}
/// Per-worker cap on stored non-trivial case hashes (distinct_nontrivial is
/// then a lower bound: cases beyond the cap are not counted as distinct).
pub const HASH_CAP: usize = 150_000;

#[derive(Clone, Copy, Debug, PartialEq, Eq)]
pub enum Tier {
    Quick,
    Thorough,
}

impl Tier {
    pub fn name(self) -> &'static str {
        match self {
            Tier::Quick => "quick",
            Tier::Thorough => "thorough",
        }
    }
    pub fn parse(s: &str) -> Option<Self> {
        match s {
            "quick" => Some(Tier::Quick),
            "thorough" => Some(Tier::Thorough),
            _ => None,
        }
    }
    pub fn pick<T>(self, q: T, t: T) -> T {
        match self {
            Tier::Quick => q,
            Tier::Thorough => t,
        }
    }
}

/// Per-case observation sink handed to `Prop::check`.
#[derive(Default)]
pub struct Obs {
    pub labels: Vec<String>,
    pub nontrivial: bool,
    pub known: Vec<String>,
    pub known_listed: BTreeSet<String>,
    pub counters: BTreeMap<String, u64>,
}

impl Obs {
    pub fn label(&mut self, l: impl Into<String>) {
        self.labels.push(l.into());
    }
    pub fn nontrivial(&mut self) {
        self.nontrivial = true;
    }
    pub fn count(&mut self, k: &str, n: u64) {
        *self.counters.entry(k.to_string()).or_insert(0) += n;
    }
    /// Records that the case hit a listed known finding.  Returns false when
    /// the committed known-findings file does not list `id` as `known`: the
    /// caller must then report the failure as a violation.
    pub fn known(&mut self, id: &str) -> bool {
        if self.known_listed.contains(id) {
            self.known.push(id.to_string());
            true
        } else {
            false
        }
    }
}

pub type Verdict = Result<(), String>;

#[macro_export]
macro_rules! ensure {
    ($cond:expr, $($arg:tt)*) => {
        if !($cond) {
            return Err(format!($($arg)*));
        }
    };
}

/// A leg is an independent way of producing cases for a property.
#[derive(Clone, Debug)]
pub struct Leg {
    pub name: &'static str,
    /// random: number of worker processes and proptest cases per worker.
    /// enumerated: `count` indices split over `workers` processes.
    pub kind: LegKind,
    pub workers: u32,
    /// "normal" or "asan": which build of `gv` runs this leg.
    pub build: Build,
}

#[derive(Clone, Copy, Debug, PartialEq, Eq)]
pub enum Build {
    Normal,
    Asan,
}

#[derive(Clone, Debug)]
pub enum LegKind {
    Random { cases: u32 },
    Enumerated { count: u64 },
}

pub trait Prop {
    type Case: Clone + Debug + Serialize + DeserializeOwned + 'static;
    const ID: &'static str;
    const NUM: u64;
    const RULE: &'static str;
    const ASSUMPTIONS: &'static [&'static str];

    fn legs(tier: Tier) -> Vec<Leg>;
    fn strategy(leg: &str, tier: Tier) -> BoxedStrategy<Self::Case>;
    fn enum_case(_leg: &str, _tier: Tier, _idx: u64) -> Option<Self::Case> {
        None
    }
    fn check(case: &Self::Case, obs: &mut Obs) -> Verdict;
    /// (proptest shrink iterations, greedy post-shrink candidate evaluations)
    /// for a leg; legs with very large cases use a small budget.
    fn shrink_budget(leg: &str) -> (u32, u32) {
        if leg.starts_with("huge") {
            // no greedy post-shrink: building the candidate list of a case with
            // 10^5..10^6 arcs costs more than it can gain
            (48, 0)
        } else {
            (4000, 6000)
        }
    }
    /// Candidate simplifications for the greedy post-shrink (optional).
    fn shrink(_case: &Self::Case) -> Vec<Self::Case> {
        vec![]
    }
    /// Extra evidence computed by the master after all legs (optional).
    fn extra_evidence(_tier: Tier) -> Value {
        Value::Null
    }
}

// ---------------------------------------------------------------------------
// Known findings
// ---------------------------------------------------------------------------

#[derive(Clone, Debug, Serialize, Deserialize)]
pub struct Finding {
    pub id: String,
    pub property: String,
    pub status: String,
    pub what: String,
    #[serde(default)]
    pub signature: String,
    #[serde(default)]
    pub commit: String,
    #[serde(default)]
    pub example: Value,
}

pub fn load_findings() -> Vec<Finding> {
    let p = verif_root().join("known_findings.json");
    match std::fs::read_to_string(&p) {
        Ok(s) => {
            let v: Value = serde_json::from_str(&s).unwrap_or(Value::Null);
            serde_json::from_value(v["findings"].clone()).unwrap_or_default()
        }
        Err(_) => vec![],
    }
}

fn known_ids(prop: &str) -> BTreeSet<String> {
    load_findings()
        .into_iter()
        .filter(|f| f.property == prop && f.status == "known")
        .map(|f| f.id)
        .collect()
}

// ---------------------------------------------------------------------------
// Panic capture
// ---------------------------------------------------------------------------

thread_local! {
    static LAST_PANIC: RefCell<String> = const { RefCell::new(String::new()) };
}

pub fn install_quiet_hook() {
    std::panic::set_hook(Box::new(|info| {
        let loc = info
            .location()
            .map(|l| format!("{}:{}", l.file(), l.line()))
            .unwrap_or_default();
        let msg = if let Some(s) = info.payload().downcast_ref::<&str>() {
            (*s).to_string()
        } else if let Some(s) = info.payload().downcast_ref::<String>() {
            s.clone()
        } else {
            "<non-string panic>".to_string()
        };
        LAST_PANIC.with(|p| *p.borrow_mut() = format!("{msg} @ {loc}"));
    }));
}

pub fn to_json<T: Serialize>(t: &T) -> String {
    serde_json::to_string(t).unwrap_or_default()
}

pub fn from_json<T: DeserializeOwned>(s: &str) -> Option<T> {
    serde_json::from_str(s).ok()
}

pub fn last_panic() -> String {
    LAST_PANIC.with(|p| p.borrow().clone())
}

/// Runs `f`, mapping an unwinding panic to `Err(message)`.
pub fn guarded<R>(f: impl FnOnce() -> R) -> Result<R, String> {
    match catch_unwind(AssertUnwindSafe(f)) {
        Ok(r) => Ok(r),
        Err(_) => Err(last_panic()),
    }
}

// ---------------------------------------------------------------------------
// Worker side
// ---------------------------------------------------------------------------

#[derive(Default, Serialize, Deserialize)]
pub struct WorkerResult {
    pub evaluations: u64,
    pub nontrivial: u64,
    pub nontrivial_hashes: Vec<u64>,
    pub labels: BTreeMap<String, u64>,
    pub counters: BTreeMap<String, u64>,
    pub samples: Vec<Value>,
    pub known: BTreeMap<String, u64>,
    pub known_examples: BTreeMap<String, Value>,
    pub failure: Option<Value>,
    pub failure_message: String,
    pub enumerated: u64,
}

struct Acc {
    res: WorkerResult,
    hashes: BTreeSet<u64>,
    frozen: bool,
    sample_budget: usize,
    known_listed: BTreeSet<String>,
    journal: Option<std::fs::File>,
}

impl Acc {
    fn new(prop: &str, journal: Option<&str>) -> Self {
        Self {
            res: WorkerResult::default(),
            hashes: BTreeSet::new(),
            frozen: false,
            sample_budget: 3,
            known_listed: known_ids(prop),
            journal: journal.map(|p| {
                std::fs::OpenOptions::new()
                    .create(true)
                    .write(true)
                    .truncate(true)
                    .open(p)
                    .expect("journal")
            }),
        }
    }

    fn run_case<P: Prop>(&mut self, case: &P::Case) -> Verdict {
        if let Some(f) = self.journal.as_mut() {
            use std::io::Seek;
            let s = serde_json::to_vec(case).unwrap();
            let _ = f.set_len(0);
            let _ = f.seek(std::io::SeekFrom::Start(0));
            let _ = f.write_all(&s);
            let _ = f.flush();
        }
        let mut obs = Obs {
            known_listed: self.known_listed.clone(),
            ..Obs::default()
        };
        let verdict = match catch_unwind(AssertUnwindSafe(|| P::check(case, &mut obs))) {
            Ok(v) => v,
            Err(_) => Err(format!(
                "unexpected panic outside an expected-panic guard: {}",
                last_panic()
            )),
        };
        if self.frozen {
            return verdict;
        }
        self.res.evaluations += 1;
        for l in obs.labels {
            *self.res.labels.entry(l).or_insert(0) += 1;
        }
        for (k, n) in obs.counters {
            *self.res.counters.entry(k).or_insert(0) += n;
        }
        let nontrivial = obs.nontrivial;
        if nontrivial {
            self.res.nontrivial += 1;
            if self.hashes.len() < HASH_CAP {
                let h = sys::hash_bytes(&serde_json::to_vec(case).unwrap());
                self.hashes.insert(h);
            }
        }
        for k in obs.known {
            let n = self.res.known.entry(k.clone()).or_insert(0);
            *n += 1;
            if *n == 1 {
                self.res
                    .known_examples
                    .insert(k, serde_json::to_value(case).unwrap());
            }
        }
        // samples: the first few cases and then a thin deterministic trickle,
        // preferring non-trivial ones.
        let e = self.res.evaluations;
        if (self.sample_budget > 0 && nontrivial && e > 2) || e == 1 {
            let text = serde_json::to_string(case).unwrap();
            if text.len() <= 6000 {
                self.res.samples.push(serde_json::to_value(case).unwrap());
            } else {
                // very large cases (huge legs) are shown by their head only
                let head: String = text.chars().take(1500).collect();
                self.res.samples.push(json!({"large_case_bytes": text.len(), "head": head}));
            }
            if e > 1 {
                self.sample_budget -= 1;
            }
        }
        if verdict.is_err() {
            self.frozen = true;
        }
        verdict
    }
}

/// Greedy delta-debugging on top of proptest's shrink: keep taking the first
/// candidate simplification that still fails, until none does.
fn post_shrink<P: Prop>(acc: &mut Acc, mut case: P::Case, mut msg: String, mut budget: u32) -> (P::Case, String) {
    acc.frozen = true;
    if budget == 0 {
        return (case, msg);
    }
    'outer: loop {
        for cand in P::shrink(&case) {
            if budget == 0 {
                break 'outer;
            }
            budget -= 1;
            if let Err(m) = acc.run_case::<P>(&cand) {
                case = cand;
                msg = m;
                continue 'outer;
            }
        }
        break;
    }
    (case, msg)
}

pub struct WorkerArgs {
    pub leg: String,
    pub tier: Tier,
    pub seed: u64,
    pub index: u32,
    pub workers: u32,
    pub out: String,
    pub journal: Option<String>,
}

pub fn worker<P: Prop>(a: &WorkerArgs) -> i32 {
    install_quiet_hook();
    let legs = P::legs(a.tier);
    let Some(leg) = legs.iter().find(|l| l.name == a.leg) else {
        eprintln!("gv: unknown leg {}", a.leg);
        return 3;
    };
    let acc = RefCell::new(Acc::new(P::ID, a.journal.as_deref()));
    match leg.kind {
        LegKind::Random { cases } => {
            let strategy = P::strategy(&a.leg, a.tier);
            let leg_no = legs.iter().position(|l| l.name == a.leg).unwrap() as u64;
            let seed = sys::seed32(&[a.seed, P::NUM, leg_no, u64::from(a.index)]);
            let config = Config {
                cases,
                failure_persistence: None,
                max_shrink_iters: P::shrink_budget(&a.leg).0,
                max_global_rejects: 100_000,
                ..Config::default()
            };
            let mut runner = TestRunner::new_with_rng(
                config,
                TestRng::from_seed(RngAlgorithm::ChaCha, &seed),
            );
            let outcome = runner.run(&strategy, |case| {
                acc.borrow_mut()
                    .run_case::<P>(&case)
                    .map_err(TestCaseError::fail)
            });
            match outcome {
                Ok(()) => {}
                Err(TestError::Fail(reason, minimal)) => {
                    let mut acc = acc.borrow_mut();
                    let (minimal, msg) =
                        post_shrink::<P>(&mut acc, minimal, reason.message().to_string(), P::shrink_budget(&a.leg).1);
                    acc.res.failure = Some(serde_json::to_value(&minimal).unwrap());
                    acc.res.failure_message = msg;
                }
                Err(TestError::Abort(reason)) => {
                    eprintln!("gv: generator aborted: {reason}");
                    return 3;
                }
            }
        }
        LegKind::Enumerated { count } => {
            // strided split: worker i takes i, i + W, i + 2W, ... (balances legs whose
            // expensive cases sit together at one end of the enumeration)
            let w = u64::from(a.workers.max(1));
            for idx in (u64::from(a.index)..count).step_by(w as usize) {
                let Some(case) = P::enum_case(&a.leg, a.tier, idx) else {
                    continue;
                };
                let mut acc = acc.borrow_mut();
                acc.res.enumerated += 1;
                if let Err(m) = acc.run_case::<P>(&case) {
                    let (minimal, msg) = post_shrink::<P>(&mut acc, case, m, P::shrink_budget(&a.leg).1);
                    acc.res.failure = Some(serde_json::to_value(&minimal).unwrap());
                    acc.res.failure_message = msg;
                    break;
                }
            }
        }
    }
    let mut acc = acc.into_inner();
    acc.res.nontrivial_hashes = acc.hashes.into_iter().collect();
    std::fs::write(&a.out, serde_json::to_vec(&acc.res).unwrap()).expect("write result");
    0
}

/// `gv replay <ID> <file>`: run one saved case, no proptest involved.
/// Exit 0 = held, 1 = failed (message on stdout), 4 = known finding.
pub fn replay<P: Prop>(path: &str) -> i32 {
    install_quiet_hook();
    let text = match std::fs::read_to_string(path) {
        Ok(t) => t,
        Err(e) => {
            eprintln!("gv: cannot read {path}: {e}");
            return 3;
        }
    };
    let v: Value = match serde_json::from_str(&text) {
        Ok(v) => v,
        Err(e) => {
            eprintln!("gv: bad json in {path}: {e}");
            return 3;
        }
    };
    let case_v = if v.get("case").is_some() {
        v["case"].clone()
    } else {
        v
    };
    let case: P::Case = match serde_json::from_value(case_v) {
        Ok(c) => c,
        Err(e) => {
            eprintln!("gv: {path} is not a {} case: {e}", P::ID);
            return 3;
        }
    };
    let mut obs = Obs {
        known_listed: known_ids(P::ID),
        ..Obs::default()
    };
    let verdict = match catch_unwind(AssertUnwindSafe(|| P::check(&case, &mut obs))) {
        Ok(v) => v,
        Err(_) => Err(format!("unexpected panic: {}", last_panic())),
    };
    match verdict {
        Ok(()) => {
            if obs.known.is_empty() {
                println!("replay {path}: property held");
                0
            } else {
                println!("replay {path}: known finding {:?}", obs.known);
                4
            }
        }
        Err(m) => {
            println!("replay {path}: FAILED: {m}");
            1
        }
    }
}

// ---------------------------------------------------------------------------
// Master side
// ---------------------------------------------------------------------------

fn exe(build: Build) -> PathBuf {
    match build {
        Build::Normal => std::env::current_exe().expect("current_exe"),
        Build::Asan => PathBuf::from(
            std::env::var("GV_ASAN_EXE").unwrap_or_else(|_| {
                format!("{}/work/target-asan/x86_64-unknown-linux-gnu/release/gv", verif_root().display())
            }),
        ),
    }
}

fn asan_env(c: &mut Command) {
    c.env(
        "ASAN_OPTIONS",
        "exitcode=77:abort_on_error=0:detect_leaks=0:allocator_may_return_null=1:handle_abort=1:symbolize=1",
    );
    c.env("RUST_BACKTRACE", "0");
}

#[derive(Debug)]
enum ChildEnd {
    Exit(i32),
    Signal(i32),
    Timeout,
}

fn wait_with_deadline(child: &mut std::process::Child, deadline: Instant) -> ChildEnd {
    use std::os::unix::process::ExitStatusExt;
    loop {
        match child.try_wait() {
            Ok(Some(st)) => {
                return match (st.code(), st.signal()) {
                    (Some(c), _) => ChildEnd::Exit(c),
                    (None, Some(s)) => ChildEnd::Signal(s),
                    _ => ChildEnd::Exit(3),
                }
            }
            Ok(None) => {
                if Instant::now() > deadline {
                    let _ = child.kill();
                    let _ = child.wait();
                    return ChildEnd::Timeout;
                }
                std::thread::sleep(Duration::from_millis(5));
            }
            Err(_) => return ChildEnd::Exit(3),
        }
    }
}

fn is_crash(e: &ChildEnd) -> bool {
    match e {
        ChildEnd::Signal(s) => {
            [libc::SIGSEGV, libc::SIGBUS, libc::SIGILL, libc::SIGABRT, libc::SIGFPE, libc::SIGTRAP]
                .contains(s)
        }
        ChildEnd::Exit(77) => true,
        _ => false,
    }
}

struct Job {
    leg: Leg,
    index: u32,
    out: PathBuf,
}

pub struct RunOutcome {
    pub exit: i32,
}

fn violations_dir(id: &str) -> PathBuf {
    let d = verif_root().join("work").join("violations").join(id);
    let _ = std::fs::create_dir_all(&d);
    d
}

fn write_violation(id: &str, case: &Value, message: &str, extra: Value) -> PathBuf {
    let bytes = format!(
        "{{\n \"property\": {},\n \"message\": {},\n \"detail\": {},\n \"case\": {}\n}}\n",
        serde_json::to_string(id).unwrap(),
        serde_json::to_string(message).unwrap(),
        serde_json::to_string(&extra).unwrap(),
        serde_json::to_string(case).unwrap()
    )
    .into_bytes();
    let h = sys::hash_bytes(&serde_json::to_vec(case).unwrap());
    let p = violations_dir(id).join(format!("{h:016x}.json"));
    let _ = std::fs::write(&p, bytes);
    p
}

pub fn run<P: Prop>(tier: Tier) -> i32 {
    let t0 = Instant::now();
    let seed: u64 = std::env::var("VERIF_SEED")
        .ok()
        .and_then(|s| s.trim().parse::<i128>().ok())
        .map(|x| x as u64)
        .unwrap_or(0);
    let id = P::ID;
    let scratch = verif_root().join("work").join("run").join(format!(
        "{id}-{}-{}",
        tier.name(),
        std::process::id()
    ));
    let _ = std::fs::remove_dir_all(&scratch);
    std::fs::create_dir_all(&scratch).expect("scratch dir");
    let hard_limit = Duration::from_secs(
        std::env::var("GV_WORKER_TIMEOUT_S")
            .ok()
            .and_then(|s| s.parse().ok())
            .unwrap_or(tier.pick(600, 6 * 3600)),
    );

    let _ = std::fs::remove_dir_all(verif_root().join("work").join("violations").join(id));
    let mut violations: Vec<(PathBuf, String)> = vec![];
    let mut inconclusive: Vec<String> = vec![];
    let mut known_total: BTreeMap<String, u64> = BTreeMap::new();
    let mut known_examples: BTreeMap<String, Value> = BTreeMap::new();
    let legs = P::legs(tier);
    let needs_asan = legs.iter().any(|l| l.build == Build::Asan);
    if needs_asan && !exe(Build::Asan).exists() {
        println!("INCONCLUSIVE property={id}: ASan build of the harness is missing");
        return 2;
    }

    // 1. regression tier: every committed replay file first.
    let mut replayed = 0_u64;
    let rdir = verif_root().join("replays").join(id);
    let mut files: Vec<PathBuf> = std::fs::read_dir(&rdir)
        .map(|d| {
            d.filter_map(|e| e.ok().map(|e| e.path()))
                .filter(|p| p.extension().is_some_and(|x| x == "json"))
                .collect()
        })
        .unwrap_or_default();
    files.sort();
    for f in &files {
        let builds: &[Build] = if needs_asan {
            &[Build::Normal, Build::Asan]
        } else {
            &[Build::Normal]
        };
        for &b in builds {
            let mut c = Command::new(exe(b));
            c.args(["replay", id, f.to_str().unwrap()])
                .stdout(Stdio::piped())
                .stderr(Stdio::null());
            if b == Build::Asan {
                asan_env(&mut c);
            }
            let mut child = c.spawn().expect("spawn replay");
            let end = wait_with_deadline(&mut child, Instant::now() + Duration::from_secs(300));
            replayed += 1;
            match end {
                ChildEnd::Exit(0) => {}
                ChildEnd::Exit(4) => {
                    *known_total.entry("(replay)".into()).or_insert(0) += 1;
                }
                ChildEnd::Exit(1) => violations.push((
                    f.clone(),
                    "committed replay case fails".to_string(),
                )),
                ref e if is_crash(e) => violations.push((
                    f.clone(),
                    format!("committed replay case crashes the process: {e:?}"),
                )),
                e => inconclusive.push(format!("replay {} ended {e:?}", f.display())),
            }
        }
    }

    // 2. generated legs
    let mut jobs: Vec<Job> = vec![];
    for leg in &legs {
        for i in 0..leg.workers {
            jobs.push(Job {
                leg: leg.clone(),
                index: i,
                out: scratch.join(format!("{}-{i}.json", leg.name)),
            });
        }
    }
    let par: usize = std::env::var("GV_PARALLEL")
        .ok()
        .and_then(|s| s.parse().ok())
        .unwrap_or_else(|| sys::current_cpus().len().max(1));
    let spawn_job = |job: &Job, journal: Option<&Path>| {
        let mut c = Command::new(exe(job.leg.build));
        c.args([
            "worker",
            id,
            "--leg",
            job.leg.name,
            "--tier",
            tier.name(),
            "--seed",
            &seed.to_string(),
            "--index",
            &job.index.to_string(),
            "--workers",
            &job.leg.workers.to_string(),
            "--out",
            job.out.to_str().unwrap(),
        ]);
        if let Some(j) = journal {
            c.args(["--journal", j.to_str().unwrap()]);
        }
        if job.leg.build == Build::Asan {
            asan_env(&mut c);
        }
        let errf = std::fs::File::create(job.out.with_extension("stderr"))
            .map(Stdio::from)
            .unwrap_or_else(|_| Stdio::null());
        c.stdout(Stdio::null()).stderr(errf);
        c.spawn().expect("spawn worker")
    };
    let mut pending: std::collections::VecDeque<usize> = (0..jobs.len()).collect();
    let mut running: Vec<(usize, std::process::Child, Instant)> = vec![];
    let mut ends: BTreeMap<usize, ChildEnd> = BTreeMap::new();
    while !pending.is_empty() || !running.is_empty() {
        while running.len() < par {
            let Some(j) = pending.pop_front() else { break };
            running.push((j, spawn_job(&jobs[j], None), Instant::now()));
        }
        let mut i = 0;
        let mut progressed = false;
        while i < running.len() {
            let done = match running[i].1.try_wait() {
                Ok(Some(st)) => {
                    use std::os::unix::process::ExitStatusExt;
                    Some(match (st.code(), st.signal()) {
                        (Some(c), _) => ChildEnd::Exit(c),
                        (None, Some(s)) => ChildEnd::Signal(s),
                        _ => ChildEnd::Exit(3),
                    })
                }
                Ok(None) => {
                    if running[i].2.elapsed() > hard_limit {
                        let _ = running[i].1.kill();
                        let _ = running[i].1.wait();
                        Some(ChildEnd::Timeout)
                    } else {
                        None
                    }
                }
                Err(_) => Some(ChildEnd::Exit(3)),
            };
            if let Some(e) = done {
                let (j, _child, _) = running.swap_remove(i);
                ends.insert(j, e);
                progressed = true;
            } else {
                i += 1;
            }
        }
        if !progressed {
            std::thread::sleep(Duration::from_millis(5));
        }
    }

    // 3. merge
    let mut evaluations = 0_u64;
    let mut nontrivial_raw = 0_u64;
    let mut hashes: BTreeSet<u64> = BTreeSet::new();
    let mut labels: BTreeMap<String, u64> = BTreeMap::new();
    let mut counters: BTreeMap<String, u64> = BTreeMap::new();
    let mut samples: Vec<Value> = vec![];
    let mut per_leg: BTreeMap<String, Value> = BTreeMap::new();
    let mut enumerated_total: BTreeMap<String, u64> = BTreeMap::new();
    for (j, job) in jobs.iter().enumerate() {
        let end = &ends[&j];
        match end {
            ChildEnd::Exit(0) => {}
            e if is_crash(e) => {
                // crash isolation: re-run this worker with a journal, then
                // replay the journalled case alone.
                let journal = job.out.with_extension("journal");
                let mut child = spawn_job(job, Some(&journal));
                let again = wait_with_deadline(&mut child, Instant::now() + hard_limit);
                let case: Option<Value> = std::fs::read_to_string(&journal)
                    .ok()
                    .and_then(|s| serde_json::from_str(&s).ok());
                if let (true, Some(case)) = (is_crash(&again), case) {
                    let tmp = job.out.with_extension("crashcase.json");
                    let _ = std::fs::write(&tmp, serde_json::to_vec(&json!({"case": case})).unwrap());
                    let errp = job.out.with_extension("crash.stderr");
                    let mut c = Command::new(exe(job.leg.build));
                    c.args(["replay", id, tmp.to_str().unwrap()])
                        .stdout(Stdio::null())
                        .stderr(
                            std::fs::File::create(&errp)
                                .map(Stdio::from)
                                .unwrap_or_else(|_| Stdio::null()),
                        );
                    if job.leg.build == Build::Asan {
                        asan_env(&mut c);
                    }
                    let mut ch = c.spawn().expect("spawn crash replay");
                    let alone = wait_with_deadline(&mut ch, Instant::now() + Duration::from_secs(300));
                    let err = std::fs::read_to_string(&errp).unwrap_or_default();
                    if is_crash(&alone) {
                        let summary: String = err
                            .lines()
                            .filter(|l| {
                                l.contains("ERROR: AddressSanitizer")
                                    || l.contains("unsafe precondition")
                                    || l.contains("SUMMARY")
                                    || l.contains("/repo/src")
                            })
                            .take(12)
                            .collect::<Vec<_>>()
                            .join(" | ");
                        let p = write_violation(
                            id,
                            &case,
                            &format!("process crashed ({alone:?}) while executing this case alone"),
                            json!({"leg": job.leg.name, "report": summary}),
                        );
                        violations.push((p, format!("crash {alone:?}: {summary}")));
                    } else {
                        inconclusive.push(format!(
                            "worker {}#{} crashed ({e:?}) but the journalled case did not crash alone ({alone:?})",
                            job.leg.name, job.index
                        ));
                    }
                } else {
                    inconclusive.push(format!(
                        "worker {}#{} crashed ({e:?}); re-run ended {again:?} without a usable journal",
                        job.leg.name, job.index
                    ));
                }
                continue;
            }
            e => {
                let err = std::fs::read_to_string(job.out.with_extension("stderr")).unwrap_or_default();
                inconclusive.push(format!(
                    "worker {}#{} ended {e:?}: {}",
                    job.leg.name,
                    job.index,
                    err.lines().last().unwrap_or("")
                ));
                continue;
            }
        }
        let Some(r): Option<WorkerResult> = std::fs::read(&job.out)
            .ok()
            .and_then(|b| serde_json::from_slice(&b).ok())
        else {
            inconclusive.push(format!("worker {}#{} left no result", job.leg.name, job.index));
            continue;
        };
        evaluations += r.evaluations;
        nontrivial_raw += r.nontrivial;
        hashes.extend(r.nontrivial_hashes.iter().copied());
        for (k, v) in &r.labels {
            *labels.entry(k.clone()).or_insert(0) += v;
        }
        for (k, v) in &r.counters {
            *counters.entry(k.clone()).or_insert(0) += v;
        }
        for (k, v) in &r.known {
            *known_total.entry(k.clone()).or_insert(0) += v;
        }
        for (k, v) in r.known_examples {
            known_examples.entry(k).or_insert(v);
        }
        *enumerated_total.entry(job.leg.name.to_string()).or_insert(0) += r.enumerated;
        let e = per_leg
            .entry(job.leg.name.to_string())
            .or_insert_with(|| json!({"evaluations": 0, "nontrivial": 0, "workers": job.leg.workers}));
        e["evaluations"] = json!(e["evaluations"].as_u64().unwrap() + r.evaluations);
        e["nontrivial"] = json!(e["nontrivial"].as_u64().unwrap() + r.nontrivial);
        if samples.len() < 6 || (job.index == 0 && samples.len() < 10) {
            samples.extend(r.samples.into_iter().take(2));
        }
        if let Some(case) = r.failure {
            let p = write_violation(id, &case, &r.failure_message, json!({"leg": job.leg.name, "worker": job.index, "seed": seed}));
            violations.push((p, r.failure_message.clone()));
        }
    }
    let mut exhaustive = false;
    for leg in &legs {
        if let LegKind::Enumerated { count } = leg.kind {
            let done = enumerated_total.get(leg.name).copied().unwrap_or(0);
            let e = per_leg
                .entry(leg.name.to_string())
                .or_insert_with(|| json!({}));
            e["enumeration_size"] = json!(count);
            e["enumerated"] = json!(done);
            if done > 0 && violations.is_empty() && inconclusive.is_empty() {
                exhaustive = true;
            }
        }
    }

    // 4. report
    let findings = load_findings();
    for (k, n) in &known_total {
        if let Some(f) = findings.iter().find(|f| &f.id == k) {
            println!(
                "KNOWN-FINDING: property={id} {} — {} ({n} generated cases hit it and were searched behind)",
                f.id, f.what
            );
        }
    }
    // Listed known findings are announced even when this run's sample did
    // not happen to hit them (the replay tier confirms they still reproduce).
    for f in findings.iter().filter(|f| f.property == id && f.status == "known") {
        if !known_total.contains_key(&f.id) {
            println!(
                "KNOWN-FINDING: property={id} {} — {} (not hit by this run's generated cases)",
                f.id, f.what
            );
        }
    }
    let wall = t0.elapsed().as_secs_f64();
    let extra = P::extra_evidence(tier);
    let evidence = json!({
        "property_id": id,
        "tier": tier.name(),
        "seed": seed as i64,
        "level": "exploration",
        "coverage": {
            "evaluations": evaluations,
            "distinct_nontrivial": hashes.len(),
            "nontrivial_before_dedup": nontrivial_raw,
            "rule": P::RULE,
            "samples": samples,
            "labels": labels,
            "counters": counters,
            "legs": per_leg,
            "exhaustive": exhaustive,
            "replayed_regression_cases": replayed,
            "excluded_known": known_total,
            "known_examples": known_examples,
            "inconclusive": inconclusive,
            "extra": extra,
        },
        "assumptions": P::ASSUMPTIONS,
        "wall_s": wall,
        "violations": violations.len(),
    });
    let edir = verif_root().join("evidence");
    let _ = std::fs::create_dir_all(&edir);
    std::fs::write(
        edir.join(format!("{id}.json")),
        serde_json::to_vec_pretty(&evidence).unwrap(),
    )
    .expect("write evidence");
    let _ = std::fs::remove_dir_all(&scratch);

    println!(
        "{id} {}: {evaluations} cases, {} distinct non-trivial, {} replayed, {:.1}s, seed {seed}",
        tier.name(),
        hashes.len(),
        replayed,
        wall
    );
    let mut top: Vec<_> = labels.iter().collect();
    top.sort_by(|a, b| b.1.cmp(a.1));
    for (k, v) in top.iter().take(40) {
        println!("  label {k}: {v}");
    }
    if !violations.is_empty() {
        let mut seen = BTreeSet::new();
        for (p, m) in &violations {
            if seen.insert(p.clone()) {
                println!("VIOLATION property={id} replay={}", p.display());
                println!("  reason: {m}");
            }
        }
        return 1;
    }
    if !inconclusive.is_empty() {
        for m in &inconclusive {
            println!("INCONCLUSIVE property={id}: {m}");
        }
        return 2;
    }
    if evaluations == 0 || hashes.len() < 2 {
        println!("INCONCLUSIVE property={id}: generator produced too few non-trivial cases");
        return 2;
    }
    0
}
