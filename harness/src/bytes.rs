//! Minimal byte reader used to decode libFuzzer inputs into the same raw
//! values the proptest strategies draw (so both feed one mapping function).

pub struct Bytes<'a> {
    d: &'a [u8],
    p: usize,
}

impl<'a> Bytes<'a> {
    pub fn new(d: &'a [u8]) -> Self {
        Self { d, p: 0 }
    }
    pub fn left(&self) -> usize {
        self.d.len().saturating_sub(self.p)
    }
    pub fn u8(&mut self) -> u8 {
        let b = self.d.get(self.p).copied().unwrap_or(0);
        self.p += 1;
        b
    }
    pub fn u16(&mut self) -> u16 {
        u16::from(self.u8()) | (u16::from(self.u8()) << 8)
    }
    pub fn u64(&mut self) -> u64 {
        (0..8).fold(0_u64, |a, i| a | (u64::from(self.u8()) << (8 * i)))
    }
    pub fn i64(&mut self) -> i64 {
        self.u64() as i64
    }
    /// A count in 0..=max that ends early when the input is exhausted.
    pub fn count(&mut self, max: usize) -> usize {
        if self.left() == 0 {
            0
        } else {
            self.u8() as usize % (max + 1)
        }
    }
}
