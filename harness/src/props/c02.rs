//! C02 — every query returns its textbook definition over the arc set.

use crate::{
    ensure,
    gen::{self, Dg, MapDg},
    model::UModel,
    reprs::{self, Unweighted},
    runner::{guarded, Build, Leg, LegKind, Obs, Prop, Tier, Verdict},
    sys::Cpus,
};
use graaf::{
    AddArcWeighted, AdjacencyList, AdjacencyListWeighted, AdjacencyMap, AdjacencyMatrix, ArcWeight,
    Arcs, ArcsWeighted, Degree, DegreeSequence, EdgeList, Empty, HasArc, HasEdge, HasWalk,
    InNeighbors, Indegree, IndegreeSequence, IsIsolated, IsPendant, Order, OutNeighbors,
    OutNeighborsWeighted, Outdegree, OutdegreeSequence, RemoveArc, SemidegreeSequence, Sinks, Size,
    Sources, Vertices,
};
use proptest::{collection::vec, prelude::*};
use serde::{Deserialize, Serialize};
use std::fmt::Debug;

#[derive(Clone, Debug, Serialize, Deserialize)]
pub enum G {
    Contiguous(Dg),
    Map(MapDg),
}

#[derive(Clone, Debug, Serialize, Deserialize)]
pub struct Case {
    pub g: G,
    pub walks: Vec<Vec<usize>>,
    pub cpus: usize,
    #[serde(default)]
    pub family: String,
}

pub struct C02;

pub trait Queries:
    Clone
    + Eq
    + Debug
    + Order
    + Size
    + HasArc
    + HasEdge
    + HasWalk
    + OutNeighbors
    + InNeighbors
    + Indegree
    + Outdegree
    + Degree
    + IsIsolated
    + IsPendant
    + Sinks
    + Sources
    + DegreeSequence
    + IndegreeSequence
    + OutdegreeSequence
    + SemidegreeSequence
    + Vertices
    + Arcs
    + RemoveArc
{
}
impl<T> Queries for T where
    T: Clone
        + Eq
        + Debug
        + Order
        + Size
        + HasArc
        + HasEdge
        + HasWalk
        + OutNeighbors
        + InNeighbors
        + Indegree
        + Outdegree
        + Degree
        + IsIsolated
        + IsPendant
        + Sinks
        + Sources
        + DegreeSequence
        + IndegreeSequence
        + OutdegreeSequence
        + SemidegreeSequence
        + Vertices
        + Arcs
        + RemoveArc
{
}

pub fn outside_ids(m: &UModel) -> Vec<usize> {
    let top = m.v.iter().next_back().copied().unwrap_or(0);
    let mut ids = vec![m.order(), m.order() + 1, top + 1, 1000, usize::MAX];
    ids.retain(|x| !m.v.contains(x));
    ids.sort_unstable();
    ids.dedup();
    ids
}

/// The iterator a query returns must behave like an iterator over exactly the
/// defined sequence under every way of consuming it: stepping with `next()`
/// and then finishing with `count`, `last`, `fold`, `nth`, `collect`, `max`/`min`
/// (and their `_by` forms), `reduce`, `for_each`, `try_fold`, `find`, `position`, `any`, `all`,
/// `skip`, `step_by` or `by_ref().take`, counts at / past the end / usize::MAX
/// handed to `nth` and `skip`, and polling after the first `None`, with
/// a `size_hint` that brackets what is left.
pub fn protocol<T, I>(what: &str, make: impl Fn() -> I, want: &[T]) -> Verdict
where
    T: Ord + Debug + Clone,
    I: Iterator<Item = T>,
{
    protocol_at(what, make, want, false)
}

/// `costly`: `make()` is expensive (spawns threads); two split points only.
pub fn protocol_at<T, I>(what: &str, make: impl Fn() -> I, want: &[T], costly: bool) -> Verdict
where
    T: Ord + Debug + Clone,
    I: Iterator<Item = T>,
{
    let n = want.len();
    let mut splits = vec![0, 1, 2, n / 2, n.saturating_sub(1), n, n + 1];
    if costly {
        splits = vec![0, n / 2 + 1];
    } else if n > 48 {
        // long sequences: two split points are enough to see a stale cursor
        splits = vec![1, n / 2];
    }
    splits.sort_unstable();
    splits.dedup();
    for k in splits {
        let rest: &[T] = &want[k.min(n)..];
        let advanced = || {
            let mut it = make();
            for _ in 0..k {
                let _ = it.next();
            }
            it
        };
        let it = advanced();
        let (lo, hi) = it.size_hint();
        ensure!(
            lo <= rest.len() && hi.map_or(true, |h| h >= rest.len()),
            "{what}: after {k} next() calls size_hint() = ({lo}, {hi:?}) but {} items remain",
            rest.len()
        );
        let got: Vec<T> = it.collect();
        ensure!(got == rest, "{what}: after {k} next() calls the rest is {got:?}, expected {rest:?}");
        let c = advanced().count();
        ensure!(c == rest.len(), "{what}: after {k} next() calls count() = {c}, {} items remain", rest.len());
        let l = advanced().last();
        ensure!(l.as_ref() == rest.last(), "{what}: after {k} next() calls last() = {l:?}, expected {:?}", rest.last());
        let f = advanced().fold(Vec::new(), |mut v, x| {
            v.push(x);
            v
        });
        ensure!(f == rest, "{what}: after {k} next() calls fold() visits {f:?}, expected {rest:?}");
        let x = advanced().nth(1);
        ensure!(x.as_ref() == rest.get(1), "{what}: after {k} next() calls nth(1) = {x:?}, expected {:?}", rest.get(1));
        // counts at and past the end, and polling an exhausted iterator: every
        // item is listed once, so nothing may come after the first None
        for over in [rest.len(), rest.len() + 3, usize::MAX] {
            let mut it = advanced();
            let x = it.nth(over);
            ensure!(x.is_none(), "{what}: after {k} next() calls nth({over}) = {x:?} although only {} items remain", rest.len());
            let again = (it.next(), it.next());
            ensure!(again.0.is_none() && again.1.is_none(), "{what}: after {k} next() calls and nth({over}) = None, polling again yields {again:?}");
            let l = it.last();
            ensure!(l.is_none(), "{what}: after {k} next() calls and nth({over}) = None, last() = {l:?}");
        }
        {
            let mut it = advanced();
            for _ in 0..rest.len() {
                let _ = it.next();
            }
            let again = (it.next(), it.next(), it.size_hint().0);
            ensure!(again.0.is_none() && again.1.is_none() && again.2 == 0, "{what}: exhausted with next(), polling again yields {:?} (size_hint lower bound {})", (&again.0, &again.1), again.2);
            ensure!(it.count() == 0, "{what}: exhausted with next(), count() is not 0");
            let mut it = advanced();
            let c = it.by_ref().skip(usize::MAX).count();
            ensure!(c == 0 && it.next().is_none(), "{what}: after {k} next() calls by_ref().skip(usize::MAX) leaves items behind");
        }
        // the remaining provided methods an iterator type may override (on
        // long sequences: at the middle split only, and not beyond 4096 items)
        if n > 48 && (k != n / 2 || n > 4096) {
            continue;
        }
        let (mx, mn) = (rest.iter().max(), rest.iter().min());
        let x = advanced().max();
        ensure!(x.as_ref() == mx, "{what}: after {k} next() calls max() = {x:?}, the rest is {rest:?}");
        let x = advanced().min();
        ensure!(x.as_ref() == mn, "{what}: after {k} next() calls min() = {x:?}, the rest is {rest:?}");
        let x = advanced().max_by(|a, b| a.cmp(b));
        ensure!(x.as_ref() == mx, "{what}: after {k} next() calls max_by(cmp) = {x:?}, the rest is {rest:?}");
        let x = advanced().min_by(|a, b| a.cmp(b));
        ensure!(x.as_ref() == mn, "{what}: after {k} next() calls min_by(cmp) = {x:?}, the rest is {rest:?}");
        let x = advanced().max_by_key(|a| a.clone());
        ensure!(x.as_ref() == mx, "{what}: after {k} next() calls max_by_key() = {x:?}, the rest is {rest:?}");
        let x = advanced().min_by_key(|a| a.clone());
        ensure!(x.as_ref() == mn, "{what}: after {k} next() calls min_by_key() = {x:?}, the rest is {rest:?}");
        let x = advanced().reduce(|a, b| if b >= a { b } else { a });
        ensure!(x.as_ref() == mx, "{what}: after {k} next() calls reduce(max) = {x:?}, the rest is {rest:?}");
        let mut fe = Vec::new();
        advanced().for_each(|x| fe.push(x));
        ensure!(fe == rest, "{what}: after {k} next() calls for_each() visits {fe:?}, expected {rest:?}");
        let tf = advanced().try_fold(0_usize, |a, _| Some(a + 1));
        ensure!(tf == Some(rest.len()), "{what}: after {k} next() calls try_fold() counts {tf:?}, {} items remain", rest.len());
        ensure!(advanced().all(|x| rest.contains(&x)), "{what}: after {k} next() calls all() sees an item outside {rest:?}");
        let j = rest.len() / 2;
        if let Some(t) = rest.get(j) {
            let x = advanced().find(|x| x == t);
            ensure!(x.as_ref() == Some(t), "{what}: after {k} next() calls find({t:?}) = {x:?}");
            let x = advanced().position(|x| &x == t);
            let wantp = rest.iter().position(|x| x == t);
            ensure!(x == wantp, "{what}: after {k} next() calls position({t:?}) = {x:?}, expected {wantp:?}");
            ensure!(advanced().any(|x| &x == t), "{what}: after {k} next() calls any(== {t:?}) is false");
        } else {
            ensure!(!advanced().any(|_| true), "{what}: after {k} next() calls any() is true but nothing remains");
        }
        let x: Vec<T> = advanced().skip(1).collect();
        ensure!(x == rest[1.min(rest.len())..], "{what}: after {k} next() calls skip(1) gives {x:?}, the rest is {rest:?}");
        let x: Vec<T> = advanced().step_by(2).collect();
        let wants: Vec<T> = rest.iter().step_by(2).cloned().collect();
        ensure!(x == wants, "{what}: after {k} next() calls step_by(2) gives {x:?}, the rest is {rest:?}");
        let mut it = advanced();
        let head: Vec<T> = it.by_ref().take(1).collect();
        let tail: Vec<T> = it.collect();
        ensure!(
            head == rest[..1.min(rest.len())] && tail == rest[1.min(rest.len())..],
            "{what}: after {k} next() calls by_ref().take(1) gives {head:?} and then {tail:?}, the rest is {rest:?}"
        );
    }
    Ok(())
}

/// Two iterators alive at the same time (over two digraphs), polled in turn:
/// each must list its own sequence.
pub fn interleaved<T, I, J>(what: &str, a: I, want_a: &[T], b: J, want_b: &[T]) -> Verdict
where
    T: PartialEq + Debug,
    I: Iterator<Item = T>,
    J: Iterator<Item = T>,
{
    let (mut a, mut b) = (a, b);
    let (mut got_a, mut got_b) = (vec![], vec![]);
    let mut turn = 0_usize;
    loop {
        // a, b, b, a, a, b, ... so that neither is always polled first
        let first_a = turn % 3 != 1;
        turn += 1;
        let (x, y) = if first_a {
            let x = a.next();
            (x, b.next())
        } else {
            let y = b.next();
            (a.next(), y)
        };
        let done = x.is_none() && y.is_none();
        got_a.extend(x);
        got_b.extend(y);
        if done || got_a.len() + got_b.len() > want_a.len() + want_b.len() + 4 {
            break;
        }
    }
    ensure!(got_a == want_a, "{what}: with a second iterator alive and polled in turn, the first lists {got_a:?}, expected {want_a:?}");
    ensure!(got_b == want_b, "{what}: with a second iterator alive and polled in turn, the second lists {got_b:?}, expected {want_b:?}");
    Ok(())
}

/// A clone taken after k steps must continue exactly like the original.
pub fn clone_consistency<T, I>(what: &str, make: impl Fn() -> I, len: usize) -> Verdict
where
    T: PartialEq + Debug,
    I: Iterator<Item = T> + Clone,
{
    for k in [0, 1, len / 2, len] {
        let mut it = make();
        for _ in 0..k {
            let _ = it.next();
        }
        let c = it.clone();
        let a: Vec<T> = it.collect();
        let b: Vec<T> = c.collect();
        ensure!(a == b, "{what}: a clone taken after {k} steps continues with {b:?}, the original with {a:?}");
    }
    Ok(())
}

/// `x.clone_from(&it)` must make `x` continue exactly like `it`, whatever `x`
/// was before (here: an iterator over another digraph).
pub fn clone_from_consistency<T, I>(what: &str, make: impl Fn() -> I, make_other: impl Fn() -> I, len: usize) -> Verdict
where
    T: PartialEq + Debug,
    I: Iterator<Item = T> + Clone,
{
    for k in [0, 1, len / 2] {
        let mut it = make();
        for _ in 0..k {
            let _ = it.next();
        }
        let mut x = make_other();
        let _ = x.next();
        x.clone_from(&it);
        let a: Vec<T> = it.collect();
        let b: Vec<T> = x.collect();
        ensure!(a == b, "{what}: after x.clone_from(&it) (it advanced {k} steps) x continues with {b:?}, it with {a:?}");
    }
    Ok(())
}

pub fn check_queries<D: Queries>(g: &D, name: &str, m: &UModel, walks: &[Vec<usize>]) -> Verdict {
    check_queries_opt(g, name, m, walks, true)
}

/// `with_protocol`: also drive the iterators through the consumption protocol
/// (done for one representation per case, chosen by the case, to bound the cost).
pub fn check_queries_opt<D: Queries>(g: &D, name: &str, m: &UModel, walks: &[Vec<usize>], with_protocol: bool) -> Verdict {
    let before = g.clone();
    let vs = m.vertices();
    ensure!(g.order() == m.order(), "{name}: order() = {}, |V| = {}", g.order(), m.order());
    ensure!(g.size() == m.size(), "{name}: size() = {}, |A| = {}", g.size(), m.size());
    let got_v: Vec<usize> = g.vertices().collect();
    ensure!(got_v == vs, "{name}: vertices() = {got_v:?}, V = {vs:?}");
    let got_a: Vec<(usize, usize)> = g.arcs().collect();
    ensure!(got_a == m.arcs(), "{name}: arcs() = {got_a:?}, A = {:?}", m.arcs());

    // beyond 200 vertices the per-vertex and per-pair loops run over a sample
    // (first / last rows, both sides of word and chunk boundaries, a few
    // pseudo-random ids); the sequences are always compared in full
    let probe: Vec<usize> = if vs.len() > 200 {
        gen::sample_ids(vs.len(), m.size()).into_iter().map(|i| vs[i]).collect()
    } else {
        vs.clone()
    };
    let mut ids = probe.clone();
    ids.extend(outside_ids(m));
    for &u in &ids {
        for &v in &ids {
            let a = guarded(|| g.has_arc(u, v)).map_err(|p| format!("{name}: has_arc({u}, {v}) is total but panicked: {p}"))?;
            ensure!(a == m.has(u, v), "{name}: has_arc({u}, {v}) = {a}, definition says {}", m.has(u, v));
            let e = guarded(|| g.has_edge(u, v)).map_err(|p| format!("{name}: has_edge({u}, {v}) is total but panicked: {p}"))?;
            let we = m.has(u, v) && m.has(v, u);
            ensure!(e == we, "{name}: has_edge({u}, {v}) = {e}, definition says {we}");
        }
    }
    // remove_arc on a clone with ids outside V: 'absent', no panic, no change
    for &u in &outside_ids(m) {
        for &v in ids.iter().take(4) {
            let mut c = g.clone();
            let r = guarded(|| c.remove_arc(u, v)).map_err(|p| format!("{name}: remove_arc({u}, {v}) is total but panicked: {p}"))?;
            ensure!(!r, "{name}: remove_arc({u}, {v}) returned true for an id outside the digraph");
            let r = guarded(|| c.remove_arc(v, u)).map_err(|p| format!("{name}: remove_arc({v}, {u}) is total but panicked: {p}"))?;
            ensure!(!r, "{name}: remove_arc({v}, {u}) returned true for an id outside the digraph");
            ensure!(c == *g, "{name}: remove_arc with an id outside the digraph changed it");
        }
    }
    for w in walks {
        let want = w.len() >= 2 && w.windows(2).all(|p| m.has(p[0], p[1]));
        let got = guarded(|| g.has_walk(w)).map_err(|p| format!("{name}: has_walk({w:?}) is total but panicked: {p}"))?;
        ensure!(got == want, "{name}: has_walk({w:?}) = {got}, definition says {want}");
    }
    // degrees straight from the arc list (one pass)
    let mut indeg_of: std::collections::BTreeMap<usize, usize> = vs.iter().map(|&v| (v, 0)).collect();
    let mut outdeg_of = indeg_of.clone();
    for &(u, v) in m.a.keys() {
        *outdeg_of.get_mut(&u).unwrap() += 1;
        *indeg_of.get_mut(&v).unwrap() += 1;
    }
    let indeg: Vec<usize> = vs.iter().map(|v| indeg_of[v]).collect();
    let outdeg: Vec<usize> = vs.iter().map(|v| outdeg_of[v]).collect();
    for &v in &probe {
        let out: Vec<usize> = g.out_neighbors(v).collect();
        ensure!(out == m.out(v), "{name}: out_neighbors({v}) = {out:?}, definition {:?}", m.out(v));
        let inn: Vec<usize> = g.in_neighbors(v).collect();
        ensure!(inn == m.inn(v), "{name}: in_neighbors({v}) = {inn:?}, definition {:?}", m.inn(v));
        let (i, o) = (indeg_of[&v], outdeg_of[&v]);
        ensure!(g.indegree(v) == i, "{name}: indegree({v}) = {}, definition {i}", g.indegree(v));
        ensure!(g.outdegree(v) == o, "{name}: outdegree({v}) = {}, definition {o}", g.outdegree(v));
        ensure!(g.degree(v) == i + o, "{name}: degree({v}) = {}, definition {}", g.degree(v), i + o);
        ensure!(g.is_sink(v) == (o == 0), "{name}: is_sink({v}) = {}, outdegree is {o}", g.is_sink(v));
        ensure!(g.is_source(v) == (i == 0), "{name}: is_source({v}) = {}, indegree is {i}", g.is_source(v));
        ensure!(
            g.is_isolated(v) == (i + o == 0),
            "{name}: is_isolated({v}) = {}, degree is {}",
            g.is_isolated(v),
            i + o
        );
        ensure!(
            g.is_pendant(v) == (i + o == 1),
            "{name}: is_pendant({v}) = {}, degree is {}",
            g.is_pendant(v),
            i + o
        );
    }
    // iterator protocol of the sequence-valued queries
    if with_protocol {
        protocol(&format!("{name}: arcs()"), || g.arcs(), &m.arcs())?;
        protocol(&format!("{name}: vertices()"), || g.vertices(), &vs)?;
        for &v in probe.iter().take(2).chain(probe.last()) {
            protocol(&format!("{name}: out_neighbors({v})"), || g.out_neighbors(v), &m.out(v))?;
            protocol(&format!("{name}: in_neighbors({v})"), || g.in_neighbors(v), &m.inn(v))?;
        }
    }
    let sinks: Vec<usize> = g.sinks().collect();
    let want: Vec<usize> = vs.iter().copied().filter(|v| outdeg_of[v] == 0).collect();
    ensure!(sinks == want, "{name}: sinks() = {sinks:?}, definition {want:?}");
    let sources: Vec<usize> = g.sources().collect();
    let want: Vec<usize> = vs.iter().copied().filter(|v| indeg_of[v] == 0).collect();
    ensure!(sources == want, "{name}: sources() = {sources:?}, definition {want:?}");
    let ds: Vec<usize> = g.degree_sequence().collect();
    let want: Vec<usize> = indeg.iter().zip(&outdeg).map(|(a, b)| a + b).collect();
    ensure!(ds == want, "{name}: degree_sequence() = {ds:?}, definition {want:?}");
    if vs.len() <= 64 && with_protocol {
        protocol_at(&format!("{name}: degree_sequence()"), || g.degree_sequence(), &want, true)?;
        protocol(&format!("{name}: sinks()"), || g.sinks(), &sinks)?;
        protocol(&format!("{name}: sources()"), || g.sources(), &sources)?;
    }
    // two live iterators at once: this digraph and a copy without its first arc
    if with_protocol && vs.len() <= 64 {
        let mut g2 = g.clone();
        let mut m2 = m.clone();
        if let Some(&(u, v)) = m.arcs().first() {
            let _ = g2.remove_arc(u, v);
            m2.a.remove(&(u, v));
        }
        let deg2: Vec<usize> = vs.iter().map(|&v| m2.indeg(v) + m2.outdeg(v)).collect();
        interleaved(&format!("{name}: degree_sequence()"), g.degree_sequence(), &want, g2.degree_sequence(), &deg2)?;
        interleaved(&format!("{name}: degree_sequence() (same digraph twice)"), g.degree_sequence(), &want, g.degree_sequence(), &want)?;
        interleaved(&format!("{name}: arcs()"), g.arcs(), &m.arcs(), g2.arcs(), &m2.arcs())?;
        let in2: Vec<usize> = vs.iter().map(|&v| m2.indeg(v)).collect();
        let out2: Vec<usize> = vs.iter().map(|&v| m2.outdeg(v)).collect();
        interleaved(&format!("{name}: indegree_sequence()"), g.indegree_sequence(), &indeg, g2.indegree_sequence(), &in2)?;
        interleaved(&format!("{name}: outdegree_sequence()"), g.outdegree_sequence(), &outdeg, g2.outdegree_sequence(), &out2)?;
        let sinks2: Vec<usize> = vs.iter().copied().filter(|&v| m2.outdeg(v) == 0).collect();
        let sources2: Vec<usize> = vs.iter().copied().filter(|&v| m2.indeg(v) == 0).collect();
        interleaved(&format!("{name}: sinks()"), g.sinks(), &sinks, g2.sinks(), &sinks2)?;
        interleaved(&format!("{name}: sources()"), g.sources(), &sources, g2.sources(), &sources2)?;
        for &v in probe.iter().take(2).chain(probe.last()) {
            interleaved(&format!("{name}: out_neighbors({v})"), g.out_neighbors(v), &m.out(v), g2.out_neighbors(v), &m2.out(v))?;
            interleaved(&format!("{name}: in_neighbors({v})"), g.in_neighbors(v), &m.inn(v), g2.in_neighbors(v), &m2.inn(v))?;
        }
    }
    let is: Vec<usize> = g.indegree_sequence().collect();
    ensure!(is == indeg, "{name}: indegree_sequence() = {is:?}, definition {indeg:?}");
    let os: Vec<usize> = g.outdegree_sequence().collect();
    ensure!(os == outdeg, "{name}: outdegree_sequence() = {os:?}, definition {outdeg:?}");
    let ss: Vec<(usize, usize)> = g.semidegree_sequence().collect();
    let want_ss: Vec<(usize, usize)> = indeg.iter().copied().zip(outdeg.iter().copied()).collect();
    ensure!(ss == want_ss, "{name}: semidegree_sequence() = {ss:?}, definition {want_ss:?}");
    let mx = |x: &[usize]| x.iter().copied().max().unwrap_or(0);
    let mn = |x: &[usize]| x.iter().copied().min().unwrap_or(0);
    ensure!(g.max_degree() == mx(&want), "{name}: max_degree() = {}, definition {}", g.max_degree(), mx(&want));
    ensure!(g.min_degree() == mn(&want), "{name}: min_degree() = {}, definition {}", g.min_degree(), mn(&want));
    ensure!(g.max_indegree() == mx(&indeg), "{name}: max_indegree() = {}, definition {}", g.max_indegree(), mx(&indeg));
    ensure!(g.min_indegree() == mn(&indeg), "{name}: min_indegree() = {}, definition {}", g.min_indegree(), mn(&indeg));
    ensure!(g.max_outdegree() == mx(&outdeg), "{name}: max_outdegree() = {}, definition {}", g.max_outdegree(), mx(&outdeg));
    ensure!(g.min_outdegree() == mn(&outdeg), "{name}: min_outdegree() = {}, definition {}", g.min_outdegree(), mn(&outdeg));
    // the provided (default) bodies of is_source / is_sink / max_* / min_*: a
    // user-side wrapper implements only indegree / outdegree / vertices
    {
        use graaf::{Indegree as _, Outdegree as _};
        let w = reprs::Wrapped(g.clone());
        let what = format!("user-defined wrapper of {name} (provided trait methods)");
        for &v in &probe {
            ensure!(w.is_source(v) == (indeg_of[&v] == 0), "{what}: is_source({v}) = {}, indegree is {}", w.is_source(v), indeg_of[&v]);
            ensure!(w.is_sink(v) == (outdeg_of[&v] == 0), "{what}: is_sink({v}) = {}, outdegree is {}", w.is_sink(v), outdeg_of[&v]);
        }
        ensure!(w.max_indegree() == mx(&indeg), "{what}: max_indegree() = {}, definition {}", w.max_indegree(), mx(&indeg));
        ensure!(w.min_indegree() == mn(&indeg), "{what}: min_indegree() = {}, definition {}", w.min_indegree(), mn(&indeg));
        ensure!(w.max_outdegree() == mx(&outdeg), "{what}: max_outdegree() = {}, definition {}", w.max_outdegree(), mx(&outdeg));
        ensure!(w.min_outdegree() == mn(&outdeg), "{what}: min_outdegree() = {}, definition {}", w.min_outdegree(), mn(&outdeg));
    }
    ensure!(*g == before, "{name}: a query changed the digraph");
    Ok(())
}

fn weight_of(u: usize, v: usize) -> usize {
    (u * 31 + v * 17) % 23
}

fn check_weighted(g: &AdjacencyListWeighted<usize>, m: &UModel) -> Verdict {
    let name = "AdjacencyListWeighted";
    let vs = m.vertices();
    let probe: Vec<usize> = if vs.len() > 200 {
        gen::sample_ids(vs.len(), m.size()).into_iter().map(|i| vs[i]).collect()
    } else {
        vs.clone()
    };
    let mut ids = probe.clone();
    ids.extend(outside_ids(m));
    for &u in &ids {
        for &v in &ids {
            let w = guarded(|| g.arc_weight(u, v).copied())
                .map_err(|p| format!("{name}: arc_weight({u}, {v}) is total but panicked: {p}"))?;
            let want = m.has(u, v).then(|| weight_of(u, v));
            ensure!(w == want, "{name}: arc_weight({u}, {v}) = {w:?}, definition {want:?}");
        }
    }
    for &u in &probe {
        let got: Vec<(usize, usize)> = g.out_neighbors_weighted(u).map(|(v, w)| (v, *w)).collect();
        let want: Vec<(usize, usize)> = m.out(u).into_iter().map(|v| (v, weight_of(u, v))).collect();
        ensure!(got == want, "{name}: out_neighbors_weighted({u}) = {got:?}, definition {want:?}");
    }
    let got: Vec<(usize, usize, usize)> = g.arcs_weighted().map(|(u, v, w)| (u, v, *w)).collect();
    let want: Vec<(usize, usize, usize)> = m.arcs().into_iter().map(|(u, v)| (u, v, weight_of(u, v))).collect();
    ensure!(got == want, "{name}: arcs_weighted() = {got:?}, definition {want:?}");
    Ok(())
}

/// Genuine random walks, each optionally corrupted at one position.
pub fn make_walks(m: &UModel, raw: &[u16]) -> Vec<Vec<usize>> {
    let vs = m.vertices();
    let outside = outside_ids(m);
    let mut r = raw.iter().copied().cycle();
    let mut nx = move || r.next().unwrap();
    let mut walks = vec![];
    for k in 0..8 {
        let want_len = match k {
            0 => 0,
            1 => 1,
            2 => 2,
            _ => 2 + (nx() as usize % 11),
        };
        let mut w = vec![];
        if want_len > 0 {
            let mut cur = vs[gen::idx(nx(), vs.len())];
            w.push(cur);
            while w.len() < want_len {
                let out = m.out(cur);
                if out.is_empty() {
                    break;
                }
                cur = out[gen::idx(nx(), out.len())];
                w.push(cur);
            }
        }
        match nx() % 4 {
            0 if !w.is_empty() => {
                // corrupt one uniformly chosen position
                let pos = gen::idx(nx(), w.len());
                let pool_pick = nx();
                w[pos] = if pool_pick % 3 == 0 {
                    outside[pool_pick as usize % outside.len()]
                } else {
                    vs[gen::idx(pool_pick, vs.len())]
                };
            }
            1 if !w.is_empty() => {
                // extend by one arbitrary vertex (valid except the last step)
                w.push(vs[gen::idx(nx(), vs.len())]);
            }
            _ => {}
        }
        walks.push(w);
    }
    walks
}

impl Prop for C02 {
    type Case = Case;
    const ID: &'static str = "C02";
    const NUM: u64 = 2;
    const RULE: &'static str = "digraphs of order 1..40 (quick) / 1..130 (thorough), about one in 25 at a large order (17..140, incl. 63..66, 127..130), and a low-rate 'huge' leg (orders 200..3100 with O(n) arcs, rows of exactly 255/256/257 out-neighbours, arcs in the last rows; per-vertex and per-pair queries on a sample of ids there) built into all five representations through empty + add_arc[_weighted], plus AdjacencyMap digraphs with non-contiguous ids; every vertex, every ordered pair over V + {order, order+1, max id+1, 1000, usize::MAX}, 8 vertex sequences per case (genuine random walks of length 0,1,2,..12, each optionally corrupted at one uniformly chosen position or extended by one arbitrary step, ids outside V included); a generated CPU count k (AdjacencyList::degree_sequence is threaded); enum leg: every digraph of order <=3 (quick) / <=4 (thorough). The iterators of arcs, vertices, out/in_neighbors, sinks, sources and degree_sequence are also driven through next()-then-count/last/fold/nth/collect at several split points with size_hint checked. Two iterators of the same query (over the digraph and over a copy without its first arc) are also kept alive together and polled in turn. is_source / is_sink / max_* / min_* are also evaluated on a user-side wrapper that inherits the provided trait methods. Non-trivial = size >=3, some vertex of indegree >=2, at least one false and one true has_walk answer over sequences of length >=2, and an id outside V was queried (always); distinct = distinct serialised case.";
    const ASSUMPTIONS: &'static [&'static str] = &[
        "queries documented to panic for a vertex outside V are only called with vertices in V",
        "is_source / in_neighbors outside V are not judged",
    ];

    fn legs(tier: Tier) -> Vec<Leg> {
        let count = (1..=tier.pick(3, 4)).map(gen::count_digraphs).sum();
        vec![
            Leg {
                name: "random",
                kind: LegKind::Random {
                    cases: tier.pick(6000, 20000),
                },
                workers: 16,
                build: Build::Normal,
            },
            Leg {
                name: "enum",
                kind: LegKind::Enumerated { count },
                workers: 16,
                build: Build::Normal,
            },
            Leg {
                name: "huge",
                kind: LegKind::Random {
                    cases: tier.pick(5, 60),
                },
                workers: 16,
                build: Build::Normal,
            },
        ]
    }

    fn strategy(leg: &str, tier: Tier) -> BoxedStrategy<Case> {
        if leg == "huge" {
            return (gen::huge_dg(), vec(any::<u16>(), 64), 1..=16_usize)
                .prop_map(|((g, family), raw, cpus)| {
                    let m = reprs::model_of(&g);
                    Case {
                        walks: make_walks(&m, &raw),
                        g: G::Contiguous(g),
                        cpus,
                        family,
                    }
                })
                .boxed();
        }
        let max = tier.pick(40, 130);
        (
            prop_oneof![
                4 => gen::digraph_labeled_big(max).prop_map(|(g, f)| (G::Contiguous(g), f)),
                1 => gen::map_digraph().prop_map(|g| (G::Map(g), "map".to_string())),
            ],
            vec(any::<u16>(), 64),
            1..=16_usize,
        )
            .prop_map(|((g, family), raw, cpus)| {
                let m = match &g {
                    G::Contiguous(d) => reprs::model_of(d),
                    G::Map(d) => reprs::map_model_of(d),
                };
                Case {
                    walks: make_walks(&m, &raw),
                    g,
                    cpus,
                    family,
                }
            })
            .boxed()
    }

    fn enum_case(_leg: &str, tier: Tier, mut idx: u64) -> Option<Case> {
        for n in 1..=tier.pick(3, 4) {
            if idx < gen::count_digraphs(n) {
                let g = gen::nth_digraph(n, idx);
                let m = reprs::model_of(&g);
                let raw: Vec<u16> = (0..64).map(|i| (idx as u16).wrapping_mul(40503).wrapping_add(i * 9973)).collect();
                return Some(Case {
                    walks: make_walks(&m, &raw),
                    g: G::Contiguous(g),
                    cpus: 1 + (idx % 4) as usize,
                    family: "enum".into(),
                });
            }
            idx -= gen::count_digraphs(n);
        }
        None
    }

    fn shrink(c: &Case) -> Vec<Case> {
        let mut out = vec![];
        match &c.g {
            G::Contiguous(g) => {
                for (g2, k) in gen::shrink_dg(g) {
                    if k.is_none() {
                        out.push(Case { g: G::Contiguous(g2), ..c.clone() });
                    } else {
                        let walks = c
                            .walks
                            .iter()
                            .map(|w| gen::relabel_list(w, k))
                            .collect();
                        out.push(Case { g: G::Contiguous(g2), walks, ..c.clone() });
                    }
                }
            }
            G::Map(g) => {
                for g2 in gen::shrink_map(g) {
                    out.push(Case { g: G::Map(g2), ..c.clone() });
                }
            }
        }
        for i in 0..c.walks.len() {
            let mut walks = c.walks.clone();
            walks.remove(i);
            out.push(Case { walks, ..c.clone() });
        }
        if c.cpus > 1 {
            out.push(Case { cpus: 1, ..c.clone() });
        }
        out
    }

    fn check(c: &Case, obs: &mut Obs) -> Verdict {
        let cpus = Cpus::new();
        let (res, seen) = cpus.with(c.cpus, crate::sys::rot(), || -> Verdict {
            match &c.g {
                G::Contiguous(d) => {
                    let m = reprs::model_of(d);
                    let pick = (m.size() * 7 + m.order() + c.cpus) % 5;
                    check_queries_opt(&AdjacencyList::build(d), "AdjacencyList", &m, &c.walks, pick == 0)?;
                    check_queries_opt(&AdjacencyMap::build(d), "AdjacencyMap", &m, &c.walks, pick == 1)?;
                    check_queries_opt(&AdjacencyMatrix::build(d), "AdjacencyMatrix", &m, &c.walks, pick == 2)?;
                    check_queries_opt(&EdgeList::build(d), "EdgeList", &m, &c.walks, pick == 3)?;
                    let mut w = AdjacencyListWeighted::<usize>::empty(d.order);
                    for &(u, v) in &d.arcs {
                        w.add_arc_weighted(u, v, weight_of(u, v));
                    }
                    check_queries_opt(&w, "AdjacencyListWeighted", &m, &c.walks, pick == 4)?;
                    check_weighted(&w, &m)
                }
                G::Map(d) => {
                    let m = reprs::map_model_of(d);
                    let g = reprs::build_map(d);
                    reprs::same(&g, &m, "building the non-contiguous AdjacencyMap through the public API")?;
                    check_queries(&g, "AdjacencyMap(non-contiguous)", &m, &c.walks)
                }
            }
        });
        res?;
        let m = match &c.g {
            G::Contiguous(d) => reprs::model_of(d),
            G::Map(d) => reprs::map_model_of(d),
        };
        let long: Vec<bool> = c
            .walks
            .iter()
            .filter(|w| w.len() >= 2)
            .map(|w| w.windows(2).all(|p| m.has(p[0], p[1])))
            .collect();
        let both = long.iter().any(|&b| b) && long.iter().any(|&b| !b);
        let indeg2 = m.v.iter().any(|&v| m.indeg(v) >= 2);
        if both {
            obs.label("walks: true and false answers");
        }
        if c.walks.iter().any(|w| w.iter().any(|v| !m.v.contains(v))) {
            obs.label("walk-with-id-outside-V");
        }
        if m.size() >= 3 && indeg2 && both {
            obs.nontrivial();
        }
        obs.label(format!("cpus-seen={seen}"));
        if m.order() > seen {
            obs.label("order > threads");
        }
        obs.label(if m.is_contiguous() { "contiguous" } else { "non-contiguous-map" });
        if !c.family.is_empty() {
            obs.label(format!("family={}", c.family));
        }
        Ok(())
    }
}
