//! Adapters: build and observe each representation through graaf's public API
//! only.

use crate::{
    gen::{Dg, MapDg, WDg},
    model::{Model, UModel},
};
use graaf::{
    AddArc, AddArcWeighted, AdjacencyList, AdjacencyListWeighted, AdjacencyMap, AdjacencyMatrix,
    Arcs, ArcsWeighted, EdgeList, Empty, FilterVertices, Order, RemoveArc, Size, Vertices,
};
use std::collections::BTreeSet;

pub trait Unweighted: Sized + Clone + Eq + std::fmt::Debug + Empty + AddArc + Arcs + Vertices + Order + Size {
    const NAME: &'static str;
    fn build(d: &Dg) -> Self {
        let mut g = Self::empty(d.order);
        for &(u, v) in &d.arcs {
            g.add_arc(u, v);
        }
        g
    }
}

impl Unweighted for AdjacencyList {
    const NAME: &'static str = "AdjacencyList";
}
impl Unweighted for AdjacencyMap {
    const NAME: &'static str = "AdjacencyMap";
}
impl Unweighted for AdjacencyMatrix {
    const NAME: &'static str = "AdjacencyMatrix";
}
impl Unweighted for EdgeList {
    const NAME: &'static str = "EdgeList";
}

pub fn build_weighted<W: Clone>(d: &WDg<W>) -> AdjacencyListWeighted<W> {
    let mut g = AdjacencyListWeighted::<W>::empty(d.order);
    for (u, v, w) in &d.arcs {
        g.add_arc_weighted(*u, *v, w.clone());
    }
    g
}

pub fn build_unit_weighted(d: &Dg) -> AdjacencyListWeighted<usize> {
    let mut g = AdjacencyListWeighted::<usize>::empty(d.order);
    for &(u, v) in &d.arcs {
        g.add_arc_weighted(u, v, 1);
    }
    g
}

pub fn model_of(d: &Dg) -> UModel {
    UModel::from_pairs(d.order, &d.arcs)
}

pub fn wmodel_of<W: Clone>(d: &WDg<W>) -> Model<W> {
    Model::from_arcs(d.order, d.arcs.iter().cloned())
}

pub fn map_model_of(d: &MapDg) -> UModel {
    UModel::from_sets(
        d.vertices.iter().copied().collect(),
        d.arcs.iter().map(|&(u, v)| (u, v, ())),
    )
}

/// Builds an AdjacencyMap with an arbitrary vertex-id set using only public
/// calls: `empty(1)`, `add_arc` to admit ids, `add_arc` + `remove_arc` for
/// isolated ids, `filter_vertices` to drop vertex 0 when it is not wanted.
/// The result is verified against the intended (V, A) by the caller through
/// `observe`.
pub fn build_map(d: &MapDg) -> AdjacencyMap {
    let vs: BTreeSet<usize> = d.vertices.iter().copied().collect();
    let mut g = AdjacencyMap::empty(1);
    for &v in &vs {
        if v != 0 {
            g.add_arc(0, v);
            let _ = g.remove_arc(0, v);
        }
    }
    for &(u, v) in &d.arcs {
        g.add_arc(u, v);
    }
    if !vs.contains(&0) {
        g = g.filter_vertices(|v| vs.contains(&v));
    }
    g
}

#[derive(Clone, Debug, PartialEq, Eq)]
pub struct Observation {
    pub order: usize,
    pub size: usize,
    pub vertices: Vec<usize>,
    pub arcs: Vec<(usize, usize)>,
}

pub fn observe<D: Order + Size + Vertices + Arcs>(g: &D) -> Observation {
    Observation {
        order: g.order(),
        size: g.size(),
        vertices: g.vertices().collect(),
        arcs: g.arcs().collect(),
    }
}

pub fn observe_weighted<W: Clone, D: ArcsWeighted<Weight = W>>(g: &D) -> Vec<(usize, usize, W)> {
    g.arcs_weighted().map(|(u, v, w)| (u, v, w.clone())).collect()
}

/// The observation a correct digraph with abstract value `m` must produce.
pub fn expected<W: Clone>(m: &Model<W>) -> Observation {
    Observation {
        order: m.order(),
        size: m.size(),
        vertices: m.vertices(),
        arcs: m.arcs(),
    }
}

/// Checks that `g` is observably exactly `m`; `what` names the operation.
pub fn same<D: Order + Size + Vertices + Arcs, W: Clone>(
    g: &D,
    m: &Model<W>,
    what: &str,
) -> Result<(), String> {
    let o = observe(g);
    let e = expected(m);
    if o != e {
        return Err(format!("{what}: observed {o:?}, abstract digraph is {e:?}"));
    }
    Ok(())
}

#[macro_export]
macro_rules! each_unweighted {
    ($f:ident ( $($args:expr),* )) => {{
        $f::<graaf::AdjacencyList>($($args),*)?;
        $f::<graaf::AdjacencyMap>($($args),*)?;
        $f::<graaf::AdjacencyMatrix>($($args),*)?;
        $f::<graaf::EdgeList>($($args),*)?;
    }};
}
