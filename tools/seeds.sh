#!/bin/bash
# tools/seeds.sh <tier> <seed>... — silence run: every check once per seed; prints non-zero exits.
cd "$(dirname "$(readlink -f "$0")")/.."
TIER=$1; shift
for S in "$@"; do
  VERIF_SEED=$S tools/run_all.sh $TIER | awk -v s=$S '{print "seed " s ": " $0}'
done
