//! Process-level helpers: CPU-affinity control, the counting allocator, stable
//! hashing and seed mixing.  Nothing in here calls graaf.

use std::{
    alloc::{GlobalAlloc, Layout, System},
    sync::atomic::{AtomicIsize, AtomicUsize, Ordering},
};

// ---------------------------------------------------------------------------
// Counting allocator (leak meter)
// ---------------------------------------------------------------------------

pub struct Counting;

static LIVE_BYTES: AtomicIsize = AtomicIsize::new(0);
static LIVE_BLOCKS: AtomicIsize = AtomicIsize::new(0);
static TOTAL_ALLOCS: AtomicUsize = AtomicUsize::new(0);

unsafe impl GlobalAlloc for Counting {
    unsafe fn alloc(&self, l: Layout) -> *mut u8 {
        let p = System.alloc(l);
        if !p.is_null() {
            LIVE_BYTES.fetch_add(l.size() as isize, Ordering::Relaxed);
            LIVE_BLOCKS.fetch_add(1, Ordering::Relaxed);
            TOTAL_ALLOCS.fetch_add(1, Ordering::Relaxed);
        }
        p
    }

    unsafe fn dealloc(&self, p: *mut u8, l: Layout) {
        System.dealloc(p, l);
        LIVE_BYTES.fetch_sub(l.size() as isize, Ordering::Relaxed);
        LIVE_BLOCKS.fetch_sub(1, Ordering::Relaxed);
    }

    unsafe fn alloc_zeroed(&self, l: Layout) -> *mut u8 {
        let p = System.alloc_zeroed(l);
        if !p.is_null() {
            LIVE_BYTES.fetch_add(l.size() as isize, Ordering::Relaxed);
            LIVE_BLOCKS.fetch_add(1, Ordering::Relaxed);
            TOTAL_ALLOCS.fetch_add(1, Ordering::Relaxed);
        }
        p
    }

    unsafe fn realloc(&self, p: *mut u8, l: Layout, new: usize) -> *mut u8 {
        let q = System.realloc(p, l, new);
        if !q.is_null() {
            LIVE_BYTES
                .fetch_add(new as isize - l.size() as isize, Ordering::Relaxed);
        }
        q
    }
}

/// Live heap bytes and blocks of this process as seen by the Rust allocator.
pub fn live() -> (isize, isize) {
    (
        LIVE_BYTES.load(Ordering::SeqCst),
        LIVE_BLOCKS.load(Ordering::SeqCst),
    )
}

/// Reads `live()` once it has been stable for a few consecutive reads (worker
/// threads that were just joined may still be releasing their thread-local
/// state).  Gives up after a bounded number of polls and returns the last
/// reading; the caller's "leak must scale with the call count" rule keeps that
/// from becoming a verdict.
pub fn live_settled() -> (isize, isize) {
    let mut last = live();
    let mut stable = 0;
    for _ in 0..2000 {
        std::thread::yield_now();
        let now = live();
        if now == last {
            stable += 1;
            if stable >= 20 {
                break;
            }
        } else {
            stable = 0;
            last = now;
        }
    }
    last
}

// ---------------------------------------------------------------------------
// CPU affinity
// ---------------------------------------------------------------------------

/// The CPUs this thread may run on right now.
pub fn current_cpus() -> Vec<usize> {
    if cfg!(miri) {
        return (0..std::thread::available_parallelism().map_or(1, |n| n.get())).collect();
    }
    unsafe {
        let mut set: libc::cpu_set_t = std::mem::zeroed();
        if libc::sched_getaffinity(
            0,
            std::mem::size_of::<libc::cpu_set_t>(),
            &mut set,
        ) != 0
        {
            return vec![0];
        }
        (0..libc::CPU_SETSIZE as usize)
            .filter(|&i| libc::CPU_ISSET(i, &set))
            .collect()
    }
}

fn set_cpus(cpus: &[usize]) -> bool {
    unsafe {
        let mut set: libc::cpu_set_t = std::mem::zeroed();
        for &c in cpus {
            libc::CPU_SET(c, &mut set);
        }
        libc::sched_setaffinity(
            0,
            std::mem::size_of::<libc::cpu_set_t>(),
            &set,
        ) == 0
    }
}

/// Affinity controller: remembers the mask the process started with.
pub struct Cpus {
    pub initial: Vec<usize>,
}

impl Cpus {
    pub fn new() -> Self {
        Self {
            initial: current_cpus(),
        }
    }

    pub fn max(&self) -> usize {
        self.initial.len().max(1)
    }

    /// Runs `f` with the calling thread restricted to `k` CPUs of the initial
    /// mask (threads spawned inside inherit the mask).  Returns `f`'s value
    /// and the value `available_parallelism()` reported inside.
    pub fn with<R>(&self, k: usize, rot: usize, f: impl FnOnce() -> R) -> (R, usize) {
        if cfg!(miri) {
            // Miri has no sched_setaffinity; the CPU count comes from -Zmiri-num-cpus
            let seen = std::thread::available_parallelism().map_or(1, |n| n.get());
            return (f(), seen);
        }
        let n = self.initial.len().max(1);
        let k = k.clamp(1, n);
        let chosen: Vec<usize> = (0..k)
            .map(|i| self.initial[(rot + i) % n])
            .collect();
        let ok = set_cpus(&chosen);
        let seen = std::thread::available_parallelism().map_or(1, |n| n.get());
        struct Restore<'a>(&'a [usize], bool);
        impl Drop for Restore<'_> {
            fn drop(&mut self) {
                if self.1 {
                    let _ = set_cpus(self.0);
                }
            }
        }
        let _g = Restore(&self.initial, ok);
        let r = f();
        (r, seen)
    }
}

// ---------------------------------------------------------------------------
// Stable hashing / seed mixing
// ---------------------------------------------------------------------------

pub fn splitmix(mut x: u64) -> u64 {
    x = x.wrapping_add(0x9E37_79B9_7F4A_7C15);
    let mut z = x;
    z = (z ^ (z >> 30)).wrapping_mul(0xBF58_476D_1CE4_E5B9);
    z = (z ^ (z >> 27)).wrapping_mul(0x94D0_49BB_1331_11EB);
    z ^ (z >> 31)
}

/// FNV-1a over bytes, finished with splitmix: stable across runs and builds.
pub fn hash_bytes(b: &[u8]) -> u64 {
    let mut h: u64 = 0xcbf2_9ce4_8422_2325;
    for &x in b {
        h ^= u64::from(x);
        h = h.wrapping_mul(0x0000_0100_0000_01B3);
    }
    splitmix(h)
}

pub fn seed32(parts: &[u64]) -> [u8; 32] {
    let mut s = 0x243F_6A88_85A3_08D3_u64;
    for &p in parts {
        s = splitmix(s ^ p);
    }
    let mut out = [0_u8; 32];
    for i in 0..4 {
        s = splitmix(s);
        out[i * 8..i * 8 + 8].copy_from_slice(&s.to_le_bytes());
    }
    out
}

/// Rotation offset for affinity masks so that concurrently running worker
/// processes do not all pin themselves to the same low-numbered CPUs.
pub fn rot() -> usize {
    if cfg!(miri) {
        0
    } else {
        std::process::id() as usize
    }
}
