//! C18 — DistanceMatrix metrics equal their definitions for every matrix.

use crate::{
    ensure,
    gen::{self, WDg},
    reprs,
    runner::{Build, Leg, LegKind, Obs, Prop, Tier, Verdict},
};
use graaf::{DistanceMatrix, FloydWarshall};
use proptest::{collection::vec, prelude::*};
use serde::{Deserialize, Serialize};
use std::fmt::Debug;

#[derive(Clone, Debug, Serialize, Deserialize)]
pub struct Case {
    /// 0 = isize, 1 = usize, 2 = FloydWarshall output (isize) for `digraph`
    pub kind: u8,
    pub order: usize,
    /// None = the type's MAX
    pub infinity: Option<i64>,
    /// row-major; None = infinity
    pub cells: Vec<Option<i64>>,
    #[serde(default)]
    pub digraph: Option<WDg<isize>>,
}

pub struct C18;

fn judge<W: Copy + Ord + Debug>(
    m: &DistanceMatrix<W>,
    order: usize,
    inf: W,
    want: &[W],
    obs: &mut Obs,
) -> Verdict {
    // indexing: (u, v) = row u, column v
    for u in 0..order {
        for v in 0..order {
            ensure!(
                m[(u, v)] == want[u * order + v],
                "m[({u}, {v})] = {:?}, expected {:?}",
                m[(u, v)],
                want[u * order + v]
            );
            ensure!(
                m[u * order + v] == m[(u, v)],
                "m[({u}, {v})] = {:?} but the flat index {} holds {:?}",
                m[(u, v)],
                u * order + v,
                m[u * order + v]
            );
        }
    }
    let ecc_ref: Vec<W> = (0..order)
        .map(|u| (0..order).map(|v| want[u * order + v]).max().unwrap())
        .collect();
    let ecc: Vec<W> = m.eccentricities().copied().collect();
    ensure!(ecc == ecc_ref, "eccentricities() = {ecc:?}, row maxima are {ecc_ref:?}");
    let dia_ref = *ecc_ref.iter().max().unwrap();
    ensure!(*m.diameter() == dia_ref, "diameter() = {:?}, maximum eccentricity is {dia_ref:?}", m.diameter());
    let min_ref = *ecc_ref.iter().min().unwrap();
    let center_ref: Vec<usize> = (0..order).filter(|&u| ecc_ref[u] == min_ref).collect();
    let center = m.center();
    ensure!(
        center == center_ref,
        "center() = {center:?}, vertices of minimal eccentricity ({min_ref:?}) are {center_ref:?}; eccentricities {ecc_ref:?}"
    );
    let per_ref: Vec<usize> = (0..order).filter(|&u| ecc_ref[u] == dia_ref).collect();
    let per: Vec<usize> = m.periphery().collect();
    ensure!(
        per == per_ref,
        "periphery() = {per:?}, vertices whose eccentricity equals the diameter are {per_ref:?}; eccentricities {ecc_ref:?}"
    );
    // the two iterators under every way of consuming them
    if order <= 24 {
        crate::props::c02::protocol("eccentricities()", || m.eccentricities().copied(), &ecc_ref)?;
        crate::props::c02::protocol("eccentricities() (by reference)", || m.eccentricities(), &ecc_ref.iter().collect::<Vec<&W>>())?;
        crate::props::c02::protocol("periphery()", || m.periphery(), &per_ref)?;
    }
    let conn_ref = ecc_ref.iter().all(|e| *e != inf);
    ensure!(
        m.is_connected() == conn_ref,
        "is_connected() = {}, expected {conn_ref}; eccentricities {ecc_ref:?}",
        m.is_connected()
    );
    let tie_min = center_ref.len() >= 2;
    let tie_max = per_ref.len() >= 2 && order >= 2;
    let all_inf = ecc_ref.iter().all(|e| *e == inf);
    if tie_min {
        obs.label("tie-for-minimum");
    }
    if tie_max {
        obs.label("tie-for-maximum");
    }
    if all_inf {
        obs.label("all-eccentricities-infinite");
    }
    if center_ref.len() == 1 && center_ref[0] != 0 {
        obs.label("unique-center-not-vertex-0");
    }
    if tie_min || tie_max || all_inf {
        obs.nontrivial();
    }
    Ok(())
}

fn run_typed<W: Copy + Ord + Debug>(
    c: &Case,
    inf: W,
    conv: impl Fn(i64) -> W,
    obs: &mut Obs,
) -> Verdict {
    let n = c.order;
    let mut m = DistanceMatrix::new(n, inf);
    ensure!(m.order == n, "new({n}, _).order = {}", m.order);
    ensure!(m.infinity == inf, "new(_, inf).infinity = {:?}", m.infinity);
    ensure!(m.dist.len() == n * n, "new({n}, _) holds {} cells", m.dist.len());
    ensure!(
        m.dist.iter().all(|x| *x == inf),
        "new({n}, inf) is not filled with infinity: {:?}",
        m.dist
    );
    let want: Vec<W> = c.cells.iter().map(|x| x.map_or(inf, &conv)).collect();
    let mut shadow = vec![inf; n * n];
    for u in 0..n {
        for v in 0..n {
            m[(u, v)] = want[u * n + v];
            shadow[u * n + v] = want[u * n + v];
            // a write at (u, v) changes that cell and nothing else
            if n <= 4 {
                ensure!(
                    m.dist == shadow,
                    "after writing ({u}, {v}) the cells are {:?}, expected {shadow:?}",
                    m.dist
                );
            }
        }
    }
    judge(&m, n, inf, &want, obs)
}

fn cells_strategy(order_max: usize) -> impl Strategy<Value = (usize, Option<i64>, Vec<Option<i64>>, u8)> {
    (
        prop_oneof![
            12 => 1..=order_max,
            1 => proptest::sample::select(vec![9_usize, 16, 33, 64, 65, 130]),
        ],
        prop_oneof![2 => Just(None), 1 => (5..60_i64).prop_map(Some)],
        vec(0..5_u8, 4),
        vec(any::<u8>(), order_max * order_max),
        any::<u8>(),
    )
        .prop_map(move |(n, inf, palette_raw, picks, shape)| {
            // palette of 4 finite values <= infinity, plus infinity itself
            let top = inf.unwrap_or(40);
            let pal: Vec<i64> = palette_raw
                .iter()
                .enumerate()
                .map(|(i, &d)| (top - 1 - i64::from(d) * 3 - i as i64).max(0))
                .collect();
            let cells = (0..n * n)
                .map(|i| {
                    let p = picks[(i * 31 + i / n) % picks.len()];
                    match shape % 6 {
                        // all infinite rows mixed in
                        0 if (i / n) % 2 == 0 => None,
                        // everything infinite
                        1 if p % 7 != 0 => None,
                        _ => {
                            if p % 5 == 4 {
                                None
                            } else {
                                Some(pal[(p % 4) as usize])
                            }
                        }
                    }
                })
                .collect();
            (n, inf, cells, shape)
        })
}

impl Prop for C18 {
    type Case = Case;
    const ID: &'static str = "C18";
    const NUM: u64 = 18;
    const RULE: &'static str = "matrices of order 1..8 (one in 13 of order 9, 16, 33, 64, 65 or 130, and one case in 12 of order 33..140 whose rows have their maximum at a single column — often one of the last — with eccentricities tied across rows) written cell by cell through IndexMut<(usize, usize)> into DistanceMatrix::new(order, infinity) for W in {isize, usize}, infinity = W::MAX or a small value, entries from a 4-value palette plus infinity (ties, all-infinite rows, all-infinite matrices, asymmetric rows), isize entries also negative; plus matrices returned by FloydWarshall on generated digraphs; enum leg: every 2x2 and 3x3... (order<=2 fully, order 3 over a 3-symbol alphabet) matrix. Up to order 24 the iterators returned by eccentricities() and periphery() are driven through the consumption protocol of C02 (every provided Iterator method after a partial next(), counts past the end, polling after None). Non-trivial = at least two vertices tie for the minimum or the maximum eccentricity, or every eccentricity is infinite; distinct = distinct serialised case.";
    const ASSUMPTIONS: &'static [&'static str] = &["entries never exceed the matrix's infinity value, as the property requires"];

    fn legs(tier: Tier) -> Vec<Leg> {
        vec![
            Leg {
                name: "random",
                kind: LegKind::Random {
                    cases: tier.pick(300000, 2000000),
                },
                workers: 16,
                build: Build::Normal,
            },
            Leg {
                name: "enum",
                kind: LegKind::Enumerated {
                    count: 2 * (3_u64.pow(9) + 3_u64.pow(4) + 3),
                },
                workers: 8,
                build: Build::Normal,
            },
        ]
    }

    fn strategy(_leg: &str, tier: Tier) -> BoxedStrategy<Case> {
        // larger matrices: every row has its maximum at exactly one column (often among
        // the last ones) and rows share a few base values, so eccentricities tie
        let big = (
            prop_oneof![2 => 33..=140_usize, 1 => proptest::sample::select(vec![63_usize, 64, 65, 70, 100, 127, 128, 129])],
            vec((0..4_u8, any::<u16>(), any::<u8>()), 140),
            any::<bool>(),
            prop_oneof![2 => Just(None), 1 => (60..90_i64).prop_map(Some)],
        )
            .prop_map(|(n, rows, signed, inf)| {
                let mut cells: Vec<Option<i64>> = Vec::with_capacity(n * n);
                for u in 0..n {
                    let (b, col_raw, shape) = rows[u];
                    let base = 10 + i64::from(b) * 7;
                    let col = match shape % 4 {
                        0 => n - 1 - (col_raw as usize % 6).min(n - 1),
                        1 => n - 1,
                        _ => gen::idx(col_raw, n),
                    };
                    for v in 0..n {
                        cells.push(if v == col {
                            if shape % 16 == 15 { None } else { Some(base) }
                        } else {
                            Some((base - 1 - ((u * 7 + v * 3) % 5) as i64).max(0))
                        });
                    }
                }
                Case { kind: u8::from(!signed), order: n, infinity: inf, cells, digraph: None }
            });
        prop_oneof![
            1 => big,
            8 => (cells_strategy(8), any::<bool>()).prop_map(|((n, inf, mut cells, _), signed)| {
                if signed {
                    // shift some entries below zero for isize
                    for (i, c) in cells.iter_mut().enumerate() {
                        if let Some(x) = c {
                            if i % 3 == 0 {
                                *x = -*x;
                            }
                        }
                    }
                }
                Case { kind: u8::from(!signed), order: n, infinity: inf, cells, digraph: None }
            }),
            2 => gen::weighted_isize(tier.pick(8, 14)).prop_map(|(mut g, _)| {
                let all: Vec<usize> = (0..g.order).collect();
                if reprs::wmodel_of(&g).walk_dp(&all).negative_circuit {
                    for a in &mut g.arcs {
                        a.2 = a.2.abs();
                    }
                }
                Case { kind: 2, order: g.order, infinity: None, cells: vec![], digraph: Some(g) }
            }),
        ]
        .boxed()
    }

    fn enum_case(_leg: &str, _tier: Tier, idx: u64) -> Option<Case> {
        let kind = (idx % 2) as u8;
        let mut i = idx / 2;
        let (n, cellcount) = if i < 3_u64.pow(9) {
            (3, 9)
        } else {
            i -= 3_u64.pow(9);
            if i < 3_u64.pow(4) {
                (2, 4)
            } else {
                i -= 3_u64.pow(4);
                (1, 1)
            }
        };
        let alphabet = [Some(1_i64), Some(2), None];
        let mut cells = vec![];
        for _ in 0..cellcount {
            cells.push(alphabet[(i % 3) as usize]);
            i /= 3;
        }
        Some(Case {
            kind,
            order: n,
            infinity: if idx % 4 < 2 { None } else { Some(9) },
            cells,
            digraph: None,
        })
    }

    fn check(c: &Case, obs: &mut Obs) -> Verdict {
        match c.kind {
            0 => {
                obs.label("isize");
                run_typed::<isize>(c, c.infinity.map_or(isize::MAX, |x| x as isize), |x| x as isize, obs)
            }
            1 => {
                obs.label("usize");
                run_typed::<usize>(
                    c,
                    c.infinity.map_or(usize::MAX, |x| x as usize),
                    |x| x.unsigned_abs() as usize,
                    obs,
                )
            }
            _ => {
                obs.label("floyd-warshall-output");
                let g = c.digraph.as_ref().ok_or("harness: missing digraph")?;
                let d = reprs::build_weighted(g);
                let mut fw = FloydWarshall::new(&d);
                let m = fw.distances();
                let n = g.order;
                ensure!(m.order == n && m.dist.len() == n * n, "FloydWarshall matrix has order {} / {} cells", m.order, m.dist.len());
                ensure!(m.infinity == isize::MAX, "FloydWarshall matrix infinity = {}", m.infinity);
                let want = m.dist.clone();
                judge(m, n, isize::MAX, &want, obs)
            }
        }
    }
}
