//! C11 — complement, converse, union and vertex filtering compute their set
//! definitions.

use crate::{
    ensure,
    gen::{self, Dg, MapDg, RawDg},
    model::{Model, UModel},
    props::c02::G,
    reprs::{self, Unweighted},
    runner::{guarded, Build, Leg, LegKind, Obs, Prop, Tier, Verdict},
    sys::{self, Cpus},
};
use graaf::{
    AddArcWeighted, AdjacencyList, AdjacencyListWeighted, AdjacencyMap, AdjacencyMatrix, Arcs,
    ArcsWeighted, Complement, Converse, EdgeList, Empty, FilterVertices, Order, Size, Union,
    Vertices,
};
use proptest::prelude::*;
use serde::{Deserialize, Serialize};
use std::{collections::BTreeSet, fmt::Debug};

#[derive(Clone, Debug, Serialize, Deserialize)]
pub struct Case {
    pub a: G,
    pub b: G,
    /// vertices kept by filter_vertices (always contains a vertex of a)
    pub keep: Vec<usize>,
    pub cpus: usize,
    #[serde(default)]
    pub family: String,
}

pub struct C11;

pub trait Ops: Clone + Eq + Debug + Order + Size + Vertices + Arcs + Complement + Converse + Union {}
impl<T: Clone + Eq + Debug + Order + Size + Vertices + Arcs + Complement + Converse + Union> Ops for T {}

fn valid<D: Order + Size + Vertices + Arcs>(g: &D, what: &str) -> Verdict {
    let vs: BTreeSet<usize> = g.vertices().collect();
    ensure!(vs.len() == g.order(), "{what}: order() = {} but vertices() lists {} distinct ids", g.order(), vs.len());
    let arcs: Vec<(usize, usize)> = g.arcs().collect();
    ensure!(arcs.len() == g.size(), "{what}: size() = {} but arcs() lists {}", g.size(), arcs.len());
    for &(u, v) in &arcs {
        ensure!(u != v, "{what}: self-loop at {u}");
        ensure!(vs.contains(&u) && vs.contains(&v), "{what}: arc ({u}, {v}) has an endpoint outside the vertex set {vs:?}");
    }
    Ok(())
}

pub fn check_ops<D: Ops>(a: &D, b: &D, ma: &UModel, mb: &UModel, name: &str) -> Verdict {
    let (a0, b0) = (a.clone(), b.clone());
    reprs::same(a, ma, &format!("{name}: operand a as built"))?;
    reprs::same(b, mb, &format!("{name}: operand b as built"))?;

    let comp = guarded(|| a.complement()).map_err(|p| format!("{name}::complement() panicked: {p}"))?;
    valid(&comp, &format!("{name}::complement()"))?;
    reprs::same(&comp, &ma.complement(), &format!("{name}::complement()"))?;
    let back = guarded(|| comp.complement()).map_err(|p| format!("{name}::complement().complement() panicked: {p}"))?;
    ensure!(back == *a, "{name}: complement is not an involution: {back:?} vs {a:?}");

    let conv = guarded(|| a.converse()).map_err(|p| format!("{name}::converse() panicked: {p}"))?;
    valid(&conv, &format!("{name}::converse()"))?;
    reprs::same(&conv, &ma.converse(), &format!("{name}::converse()"))?;
    let back = guarded(|| conv.converse()).map_err(|p| format!("{name}::converse().converse() panicked: {p}"))?;
    ensure!(back == *a, "{name}: converse is not an involution: {back:?} vs {a:?}");

    let un = guarded(|| a.union(b)).map_err(|p| format!("{name}::union() panicked: {p}"))?;
    valid(&un, &format!("{name}::union()"))?;
    reprs::same(&un, &ma.union(mb), &format!("{name}: a.union(b)"))?;
    let nu = guarded(|| b.union(a)).map_err(|p| format!("{name}::union() panicked: {p}"))?;
    ensure!(un == nu, "{name}: union is not commutative: {un:?} vs {nu:?}");
    let aa = guarded(|| a.union(a)).map_err(|p| format!("{name}::union(self) panicked: {p}"))?;
    ensure!(aa == *a, "{name}: union is not idempotent: {aa:?} vs {a:?}");
    // associativity with a third operand on a's vertex set
    let c = conv;
    let left = guarded(|| a.union(b).union(&c)).map_err(|p| format!("{name}: (a u b) u c panicked: {p}"))?;
    let right = guarded(|| a.union(&b.union(&c))).map_err(|p| format!("{name}: a u (b u c) panicked: {p}"))?;
    ensure!(left == right, "{name}: union is not associative: {left:?} vs {right:?}");
    reprs::same(&left, &ma.union(mb).union(&ma.converse()), &format!("{name}: (a u b) u converse(a)"))?;

    // operations applied to the results of other operations
    if ma.order().max(mb.order()) <= 64 {
        let x = guarded(|| a.union(b).complement().converse()).map_err(|p| format!("{name}: union().complement().converse() panicked: {p}"))?;
        reprs::same(&x, &ma.union(mb).complement().converse(), &format!("{name}: a.union(b).complement().converse()"))?;
        let y = guarded(|| a.complement().union(&b.converse())).map_err(|p| format!("{name}: complement().union(converse()) panicked: {p}"))?;
        reprs::same(&y, &ma.complement().union(&mb.converse()), &format!("{name}: a.complement().union(&b.converse())"))?;
        let z = guarded(|| a.converse().complement()).map_err(|p| format!("{name}: converse().complement() panicked: {p}"))?;
        let z2 = guarded(|| a.complement().converse()).map_err(|p| format!("{name}: complement().converse() panicked: {p}"))?;
        ensure!(z == z2, "{name}: complement and converse do not commute: {z:?} vs {z2:?}");
    }

    ensure!(*a == a0 && *b == b0, "{name}: an operation changed its operand");
    Ok(())
}

fn check_filter(g: &AdjacencyMap, m: &UModel, keep: &BTreeSet<usize>, name: &str) -> Verdict {
    let g0 = g.clone();
    let f = guarded(|| g.filter_vertices(|v| keep.contains(&v))).map_err(|p| format!("{name}::filter_vertices panicked: {p}"))?;
    valid(&f, &format!("{name}::filter_vertices"))?;
    reprs::same(&f, &m.induced(keep), &format!("{name}::filter_vertices({keep:?})"))?;
    // filtering with the full vertex set is the identity; filtering twice = once
    let all = guarded(|| g.filter_vertices(|_| true)).map_err(|p| format!("{name}::filter_vertices(true) panicked: {p}"))?;
    ensure!(all == *g, "{name}: filter_vertices(|_| true) is not the identity");
    let twice = guarded(|| f.filter_vertices(|v| keep.contains(&v))).map_err(|p| format!("{name}: filtering twice panicked: {p}"))?;
    ensure!(twice == f, "{name}: filtering twice differs from filtering once");
    // operations on a filtered digraph (its vertex set need not contain 0 or be a run)
    if m.order() <= 64 {
        let mi = m.induced(keep);
        if mi.order() >= 1 {
            let c = guarded(|| f.complement()).map_err(|p| format!("{name}: filter_vertices().complement() panicked: {p}"))?;
            reprs::same(&c, &mi.complement(), &format!("{name}: filter_vertices({keep:?}).complement()"))?;
            let u = guarded(|| f.union(g)).map_err(|p| format!("{name}: filter_vertices().union(original) panicked: {p}"))?;
            ensure!(u == *g, "{name}: the union of an induced subdigraph with the original is not the original");
            let cv = guarded(|| f.converse()).map_err(|p| format!("{name}: filter_vertices().converse() panicked: {p}"))?;
            reprs::same(&cv, &mi.converse(), &format!("{name}: filter_vertices({keep:?}).converse()"))?;
        }
    }
    // a predicate that itself filters (the same digraph and the first result)
    // while the outer call is running; each inner result is judged on the spot
    if m.order() >= 2 && m.order() <= 24 {
        let mi = m.induced(keep);
        // which inner calls the predicate makes: on the operand, on the first
        // result, or both in either order
        for mode in 0..4 {
            let trouble: std::cell::RefCell<Option<String>> = std::cell::RefCell::new(None);
            let on_operand = |u: usize| {
                let inner = g.filter_vertices(|w| w != u);
                let without: BTreeSet<usize> = m.v.iter().copied().filter(|&w| w != u).collect();
                if let Err(e) = reprs::same(&inner, &m.induced(&without), &format!("{name}: filter_vertices(w != {u}) called from inside a filter_vertices predicate")) {
                    trouble.borrow_mut().get_or_insert(e);
                }
                inner.order() + 1 == m.order()
            };
            let on_result = |_: usize| {
                if mi.order() >= 1 {
                    let again = f.filter_vertices(|w| keep.contains(&w));
                    if again != f {
                        trouble.borrow_mut().get_or_insert(format!("{name}: filtering the first result again from inside a predicate gives {again:?}, not {f:?}"));
                    }
                }
                true
            };
            let nested = guarded(|| {
                g.filter_vertices(|u| {
                    let inner_ok = match mode {
                        0 => on_operand(u),
                        1 => on_result(u),
                        2 => on_operand(u) && on_result(u),
                        _ => on_result(u) && on_operand(u),
                    };
                    keep.contains(&u) && inner_ok
                })
            })
            .map_err(|p| format!("{name}::filter_vertices with a predicate that calls filter_vertices panicked: {p}"))?;
            if let Some(e) = trouble.into_inner() {
                return Err(e);
            }
            reprs::same(&nested, &mi, &format!("{name}::filter_vertices({keep:?}) with a predicate that itself calls filter_vertices (mode {mode})"))?;
        }
    }
    // predicates with state (a budget, a coin): the definition does not say
    // which vertices such a predicate selects, but the result must still be a
    // valid digraph inside the operand
    if m.order() <= 64 {
        for mode in 0..4_usize {
            let calls = std::cell::Cell::new(0_usize);
            let budget = [1, 2, keep.len().max(1), m.order() / 2 + 1][mode];
            let r = guarded(|| {
                g.filter_vertices(|_| {
                    let k = calls.get();
                    calls.set(k + 1);
                    if mode == 3 { k % 3 != 1 } else { k < budget }
                })
            })
            .map_err(|p| format!("{name}::filter_vertices with a stateful predicate panicked: {p}"))?;
            let what = format!("{name}::filter_vertices with a stateful predicate (mode {mode})");
            valid(&r, &what)?;
            for v in r.vertices() {
                ensure!(m.v.contains(&v), "{what}: vertex {v} is not a vertex of the operand");
            }
            for (u, v) in r.arcs() {
                ensure!(m.has(u, v), "{what}: arc ({u}, {v}) is not an arc of the operand");
            }
        }
    }
    ensure!(*g == g0, "{name}: filter_vertices changed its operand");
    Ok(())
}

fn weighted_converse_with<W: Copy + Ord + Debug>(d: &Dg, ty: &str, wt: impl Fn(usize, usize) -> W) -> Verdict {
    let mut g = AdjacencyListWeighted::<W>::empty(d.order);
    for &(u, v) in &d.arcs {
        g.add_arc_weighted(u, v, wt(u, v));
    }
    let g0 = g.clone();
    let name = format!("AdjacencyListWeighted<{ty}>");
    let c = guarded(|| g.converse()).map_err(|p| format!("{name}::converse() panicked: {p}"))?;
    let got: Vec<(usize, usize, W)> = c.arcs_weighted().map(|(u, v, w)| (u, v, *w)).collect();
    let mut want: Vec<(usize, usize, W)> = d.arcs.iter().map(|&(u, v)| (v, u, wt(u, v))).collect();
    want.sort();
    ensure!(got == want, "{name}::converse() = {got:?}, definition (weights carried over) {want:?}");
    ensure!(c.order() == d.order, "{name}::converse() has order {}", c.order());
    let back = guarded(|| c.converse()).map_err(|p| format!("{name}::converse().converse() panicked: {p}"))?;
    let got: Vec<(usize, usize, W)> = back.arcs_weighted().map(|(u, v, w)| (u, v, *w)).collect();
    let orig: Vec<(usize, usize, W)> = g.arcs_weighted().map(|(u, v, w)| (u, v, *w)).collect();
    ensure!(got == orig && back.order() == d.order, "{name}: converse is not an involution: {got:?} vs {orig:?}");
    let now: Vec<(usize, usize, W)> = g0.arcs_weighted().map(|(u, v, w)| (u, v, *w)).collect();
    ensure!(orig == now, "{name}::converse() changed its operand");
    Ok(())
}

/// The weight type is generic: besides isize the converse is taken with a
/// zero-sized, a one-byte, a 16-byte, an array and an Option weight type.
fn weighted_converse(d: &Dg) -> Verdict {
    weighted_converse_with(d, "isize", |u, v| (u as isize) * 7 - (v as isize) * 3)?;
    if d.order <= 64 {
        weighted_converse_with(d, "()", |_, _| ())?;
        weighted_converse_with(d, "u8", |u, v| (u * 31 + v * 7) as u8)?;
        weighted_converse_with(d, "i128", |u, v| ((u as i128) << 70) - v as i128)?;
        weighted_converse_with(d, "[u16; 3]", |u, v| [u as u16, v as u16, (u ^ v) as u16])?;
        weighted_converse_with(d, "Option<i8>", |u, v| ((u + v) % 3 != 0).then_some((u as i8).wrapping_sub(v as i8)))?;
    }
    Ok(())
}

fn model_g(g: &G) -> UModel {
    match g {
        G::Contiguous(d) => reprs::model_of(d),
        G::Map(d) => reprs::map_model_of(d),
    }
}

/// Re-sizes a raw digraph to a row count chosen relative to the CPU count.
pub fn relative_order(mut r: RawDg, k: usize, class: u8, max: usize) -> RawDg {
    let n = match class % 10 {
        0 => k.saturating_sub(1),
        1 => k,
        2 => k + 1,
        3 => 2 * k + 1,
        4 => 3 * k - 1,
        5 => 5 * k + 3,
        _ => r.n,
    };
    r.n = n.clamp(1, max);
    r
}

impl Prop for C11 {
    type Case = Case;
    const ID: &'static str = "C11";
    const NUM: u64 = 11;
    const RULE: &'static str = "pairs of digraphs (equal and different orders 1..40 quick / 1..100 thorough; row counts drawn relative to the generated CPU count k: k-1, k, k+1, 2k+1, 3k-1, 5k+3) in AdjacencyList, AdjacencyMap, AdjacencyMatrix, EdgeList (+ AdjacencyListWeighted<isize> and, up to order 64, the weight types (), u8, i128, [u16; 3], Option<i8> for converse), and pairs of AdjacencyMap digraphs with non-contiguous ids (interleaved, overlapping, disjoint key sets) built through the public API; a non-empty vertex subset for filter_vertices; k in 1..=16 set with sched_setaffinity. About one random case in 25 has a large order (17..140, weighted towards 63..66, 96, 127..130, 140; at most 700 arcs). A low-rate 'huge' leg adds digraphs of 200..3100 vertices with O(n) arcs (paths, circuits, stars, wheels, trees, one row of exactly 255/256/257 out-neighbours, arcs in the last rows, complete below 300). Operations are also applied to the results of other operations (union.complement.converse, complement.union(converse), complement/converse commuting, complement/union/converse of a filter_vertices result) for order <= 64; up to order 24 filter_vertices is also called with a predicate that itself calls filter_vertices, and up to order 64 with stateful predicates (budgets, every third call false), whose result must still be a valid digraph inside the operand. Non-trivial = both operands have a common arc and a private arc each, and (k < row count or the vertex set is not 0..|V|); distinct = distinct serialised case.";
    const ASSUMPTIONS: &'static [&'static str] = &[
        "union of fixed-order representations is judged with V = 0..max(order)",
        "filter_vertices is only called with a selection that keeps at least one vertex",
    ];

    fn legs(tier: Tier) -> Vec<Leg> {
        vec![
            Leg {
                name: "random",
                kind: LegKind::Random {
                    cases: tier.pick(750, 8000),
                },
                workers: 16,
                build: Build::Normal,
            },
            Leg {
                name: "enum",
                kind: LegKind::Enumerated {
                    count: 64 * 64 + 4 * 4 + 1,
                },
                workers: 8,
                build: Build::Normal,
            },
            Leg {
                name: "huge",
                kind: LegKind::Random {
                    cases: tier.pick(2, 16),
                },
                workers: 16,
                build: Build::Normal,
            },
        ]
    }

    fn strategy(leg: &str, tier: Tier) -> BoxedStrategy<Case> {
        if leg == "huge" {
            // orders 200..900 (complement is quadratic), wide rows included
            return (gen::huge_dg(), gen::huge_dg(), 1..=16_usize, any::<u64>())
                .prop_map(|((mut a, fa), (mut b, fb), cpus, bits)| {
                    for g in [&mut a, &mut b] {
                        g.order = g.order.min(900);
                        let n = g.order;
                        g.arcs.retain(|&(u, v)| u < n && v < n);
                    }
                    let keep: Vec<usize> = (0..a.order).filter(|i| (bits >> (i % 64)) & 1 == 1 || *i == 0).collect();
                    Case { a: G::Contiguous(a), b: G::Contiguous(b), keep, cpus, family: format!("{fa}+{fb}") }
                })
                .boxed();
        }
        let max = tier.pick(40, 100);
        let contiguous = (
            gen::raw_dg_big(max),
            gen::raw_dg(max),
            1..=16_usize,
            any::<u8>(),
            any::<u8>(),
            any::<u64>(),
            any::<u16>(),
            any::<u8>(),
        )
            .prop_map(move |(ra, rb, cpus, ca, cb, bits, pick, share)| {
                let big = ra.n > max;
                let ra = if big { ra } else { relative_order(ra, cpus, ca, max) };
                let mut rb = relative_order(rb, cpus, cb, max);
                if share % 3 == 0 {
                    rb.n = ra.n;
                }
                let a = gen::build_dg(&ra);
                let mut b = gen::build_dg(&rb);
                // make common and private arcs likely
                if share % 2 == 0 {
                    for &(u, v) in a.arcs.iter().step_by(2) {
                        if u < b.order && v < b.order && !b.arcs.contains(&(u, v)) {
                            b.arcs.push((u, v));
                        }
                    }
                    b.arcs.sort();
                }
                let mut keep: Vec<usize> = (0..a.order).filter(|&i| bits >> (i % 64) & 1 == 1).collect();
                let anchor = gen::idx(pick, a.order);
                if !keep.contains(&anchor) {
                    keep.push(anchor);
                }
                let family = format!("{}+{}", gen::family_name(&ra), gen::family_name(&rb));
                Case { a: G::Contiguous(a), b: G::Contiguous(b), keep, cpus, family }
            });
        let maps = (gen::map_digraph(), gen::map_digraph(), 1..=16_usize, any::<u64>(), any::<u16>(), any::<u8>())
            .prop_map(|(a, mut b, cpus, bits, pick, share)| {
                if share % 3 == 0 {
                    // overlapping key sets with common arcs
                    for &v in &a.vertices {
                        if !b.vertices.contains(&v) {
                            b.vertices.push(v);
                        }
                    }
                    for &e in a.arcs.iter().step_by(2) {
                        if !b.arcs.contains(&e) {
                            b.arcs.push(e);
                        }
                    }
                    b.arcs.sort();
                }
                let mut keep: Vec<usize> = a
                    .vertices
                    .iter()
                    .enumerate()
                    .filter(|(i, _)| bits >> (i % 64) & 1 == 1)
                    .map(|(_, &v)| v)
                    .collect();
                let anchor = a.vertices[gen::idx(pick, a.vertices.len())];
                if !keep.contains(&anchor) {
                    keep.push(anchor);
                }
                Case { a: G::Map(a), b: G::Map(b), keep, cpus, family: "map".into() }
            });
        prop_oneof![3 => contiguous, 2 => maps].boxed()
    }

    fn enum_case(_leg: &str, _tier: Tier, idx: u64) -> Option<Case> {
        // all pairs of digraphs of order 3 (and of order 2, and 1)
        let (n, i) = if idx < 64 * 64 {
            (3, idx)
        } else if idx < 64 * 64 + 16 {
            (2, idx - 64 * 64)
        } else {
            (1, 0)
        };
        let c = gen::count_digraphs(n);
        Some(Case {
            a: G::Contiguous(gen::nth_digraph(n, i / c)),
            b: G::Contiguous(gen::nth_digraph(n, i % c)),
            keep: (0..n).filter(|&v| (i >> v) & 1 == 1 || v == (i % n as u64) as usize).collect(),
            cpus: 1 + (i % 3) as usize,
            family: "enum".into(),
        })
    }

    fn shrink(c: &Case) -> Vec<Case> {
        let mut out = vec![];
        let shrink_g = |g: &G| -> Vec<G> {
            match g {
                G::Contiguous(d) => gen::shrink_dg(d)
                    .into_iter()
                    .filter(|(_, k)| k.map_or(true, |k| k + 1 == d.order))
                    .map(|(d, _)| G::Contiguous(d))
                    .collect(),
                G::Map(d) => gen::shrink_map(d).into_iter().map(G::Map).collect(),
            }
        };
        let va: BTreeSet<usize> = model_g(&c.a).v;
        for a in shrink_g(&c.a) {
            let v2 = model_g(&a).v;
            let keep: Vec<usize> = c.keep.iter().copied().filter(|v| v2.contains(v)).collect();
            if keep.is_empty() {
                continue;
            }
            out.push(Case { a, keep, ..c.clone() });
        }
        for b in shrink_g(&c.b) {
            out.push(Case { b, ..c.clone() });
        }
        for i in 0..c.keep.len() {
            let mut keep = c.keep.clone();
            keep.remove(i);
            if keep.iter().any(|v| va.contains(v)) {
                out.push(Case { keep, ..c.clone() });
            }
        }
        if c.cpus > 1 {
            out.push(Case { cpus: 1, ..c.clone() });
        }
        out
    }

    fn check(c: &Case, obs: &mut Obs) -> Verdict {
        let ma = model_g(&c.a);
        let mb = model_g(&c.b);
        let keep: BTreeSet<usize> = c.keep.iter().copied().collect();
        ensure!(keep.iter().any(|v| ma.v.contains(v)), "harness: empty filter selection");
        let cpus = Cpus::new();
        let (res, seen) = cpus.with(c.cpus, sys::rot(), || -> Verdict {
            match (&c.a, &c.b) {
                (G::Contiguous(a), G::Contiguous(b)) => {
                    check_ops(&AdjacencyList::build(a), &AdjacencyList::build(b), &ma, &mb, "AdjacencyList")?;
                    check_ops(&AdjacencyMap::build(a), &AdjacencyMap::build(b), &ma, &mb, "AdjacencyMap")?;
                    check_ops(&AdjacencyMatrix::build(a), &AdjacencyMatrix::build(b), &ma, &mb, "AdjacencyMatrix")?;
                    check_ops(&EdgeList::build(a), &EdgeList::build(b), &ma, &mb, "EdgeList")?;
                    weighted_converse(a)?;
                    check_filter(&AdjacencyMap::build(a), &ma, &keep, "AdjacencyMap")
                }
                (G::Map(a), G::Map(b)) => {
                    let ga = reprs::build_map(a);
                    let gb = reprs::build_map(b);
                    reprs::same(&ga, &ma, "building the non-contiguous AdjacencyMap a through the public API")?;
                    reprs::same(&gb, &mb, "building the non-contiguous AdjacencyMap b through the public API")?;
                    check_ops(&ga, &gb, &ma, &mb, "AdjacencyMap(non-contiguous)")?;
                    check_filter(&ga, &ma, &keep, "AdjacencyMap(non-contiguous)")
                }
                _ => Err("harness: mixed operand kinds".into()),
            }
        });
        res?;
        let common = ma.a.keys().any(|k| mb.a.contains_key(k));
        let pa = ma.a.keys().any(|k| !mb.a.contains_key(k));
        let pb = mb.a.keys().any(|k| !ma.a.contains_key(k));
        let rows = ma.order().max(mb.order());
        let noncontig = !ma.is_contiguous() || !mb.is_contiguous();
        if common && pa && pb {
            obs.label("common+private-arcs");
        }
        if seen < rows {
            obs.label("threads < rows");
        }
        if noncontig {
            obs.label("non-contiguous");
        }
        if ma.order() != mb.order() {
            obs.label("different-orders");
        }
        if ma.v.is_disjoint(&mb.v) {
            obs.label("disjoint-vertex-sets");
        }
        obs.label(format!("cpus-seen={seen}"));
        if common && pa && pb && (seen < rows || noncontig) {
            obs.nontrivial();
        }
        let _ = Model::<()>::contiguous(1);
        let _: Option<MapDg> = None;
        Ok(())
    }
}
