//! C12 — structural predicates decide exactly their mathematical definitions.

use crate::{
    ensure,
    gen::{self, Dg, MapDg},
    model::UModel,
    props::c02::G,
    reprs::{self, Unweighted},
    runner::{guarded, Build, Leg, LegKind, Obs, Prop, Tier, Verdict},
    sys::{self, Cpus},
};
use graaf::{
    AdjacencyList, AdjacencyMap, AdjacencyMatrix, EdgeList, IsBalanced, IsComplete, IsOriented,
    IsRegular, IsSemicomplete, IsSimple, IsSpanningSubdigraph, IsSubdigraph, IsSuperdigraph,
    IsSymmetric, IsTournament,
};
use proptest::{collection::vec, prelude::*};
use serde::{Deserialize, Serialize};
use std::collections::BTreeSet;

#[derive(Clone, Debug, Serialize, Deserialize)]
pub struct Case {
    pub d: G,
    /// second digraph for the subdigraph relations
    pub h: G,
    pub cpus: usize,
    #[serde(default)]
    pub kind: String,
}

pub struct C12;

pub trait Preds:
    IsBalanced
    + IsComplete
    + IsOriented
    + IsRegular
    + IsSemicomplete
    + IsSimple
    + IsSpanningSubdigraph
    + IsSubdigraph
    + IsSuperdigraph
    + IsSymmetric
    + IsTournament
{
}
impl<T> Preds for T where
    T: IsBalanced
        + IsComplete
        + IsOriented
        + IsRegular
        + IsSemicomplete
        + IsSimple
        + IsSpanningSubdigraph
        + IsSubdigraph
        + IsSuperdigraph
        + IsSymmetric
        + IsTournament
{
}

macro_rules! pred {
    ($g:expr, $name:expr, $call:ident, $want:expr) => {{
        let got = guarded(|| $g.$call()).map_err(|p| format!("{}::{}() panicked: {p}", $name, stringify!($call)))?;
        ensure!(
            got == $want,
            "{}::{}() = {got}, the definition says {}",
            $name,
            stringify!($call),
            $want
        );
    }};
}

pub fn check_preds<D: Preds>(d: &D, h: &D, md: &UModel, mh: &UModel, name: &str) -> Verdict {
    pred!(d, name, is_complete, md.is_complete());
    pred!(d, name, is_semicomplete, md.is_semicomplete());
    pred!(d, name, is_tournament, md.is_tournament());
    pred!(d, name, is_regular, md.is_regular());
    pred!(d, name, is_balanced, md.is_balanced());
    pred!(d, name, is_symmetric, md.is_symmetric());
    pred!(d, name, is_oriented, md.is_oriented());
    pred!(d, name, is_simple, true);
    pred!(h, name, is_simple, true);
    let rel = |what: &str, got: bool, want: bool| -> Verdict {
        ensure!(got == want, "{name}: {what} = {got}, the definition says {want}");
        Ok(())
    };
    rel("h.is_subdigraph(d)", h.is_subdigraph(d), mh.is_subdigraph_of(md))?;
    rel("d.is_subdigraph(h)", d.is_subdigraph(h), md.is_subdigraph_of(mh))?;
    rel("d.is_superdigraph(h)", d.is_superdigraph(h), mh.is_subdigraph_of(md))?;
    rel("h.is_superdigraph(d)", h.is_superdigraph(d), md.is_subdigraph_of(mh))?;
    rel("h.is_spanning_subdigraph(d)", h.is_spanning_subdigraph(d), mh.is_spanning_subdigraph_of(md))?;
    rel("d.is_spanning_subdigraph(h)", d.is_spanning_subdigraph(h), md.is_spanning_subdigraph_of(mh))?;
    rel("d.is_subdigraph(d)", d.is_subdigraph(d), true)?;
    rel("d.is_spanning_subdigraph(d)", d.is_spanning_subdigraph(d), true)?;
    Ok(())
}

/// The blanket implementations (is_subdigraph, is_superdigraph,
/// is_spanning_subdigraph, is_balanced, is_oriented, is_symmetric) on a
/// user-defined representation that enumerates vertices and arcs in its own
/// order with loose size hints.
pub fn check_user_defined(md: &UModel, mh: &UModel, salt: usize) -> Verdict {
    use graaf::{IsBalanced, IsOriented, IsSpanningSubdigraph, IsSubdigraph, IsSuperdigraph, IsSymmetric};
    let name = "user-defined representation (scrambled enumeration order, loose size hints)";
    for s in [salt, salt + 1, salt + 4] {
        // one vertex-order scheme for both operands (is_spanning_subdigraph
        // compares vertices() as sequences, so a representation has to list
        // equal vertex sets in one order, as the library's do); the order of
        // rows and arcs differs between them
        let d = reprs::Scrambled::new(md, s);
        let h = reprs::Scrambled::new(mh, s).arc_order(s + 1);
        let rel = |what: &str, got: bool, want: bool| -> Verdict {
            ensure!(got == want, "{name}: {what} = {got}, the definition says {want} (vertices of d in the order {:?}, of h {:?})", d.order, h.order);
            Ok(())
        };
        rel("h.is_subdigraph(d)", h.is_subdigraph(&d), mh.is_subdigraph_of(md))?;
        rel("d.is_subdigraph(h)", d.is_subdigraph(&h), md.is_subdigraph_of(mh))?;
        rel("d.is_superdigraph(h)", d.is_superdigraph(&h), mh.is_subdigraph_of(md))?;
        rel("h.is_superdigraph(d)", h.is_superdigraph(&d), md.is_subdigraph_of(mh))?;
        rel("h.is_spanning_subdigraph(d)", h.is_spanning_subdigraph(&d), mh.is_spanning_subdigraph_of(md))?;
        rel("d.is_spanning_subdigraph(h)", d.is_spanning_subdigraph(&h), md.is_spanning_subdigraph_of(mh))?;
        let d2 = reprs::Scrambled::new(md, s).arc_order(s + 4);
        rel("d.is_subdigraph(d) (two arc orders)", d.is_subdigraph(&d2), true)?;
        rel("d.is_spanning_subdigraph(d) (two arc orders)", d.is_spanning_subdigraph(&d2), true)?;
        rel("d.is_superdigraph(d) (two arc orders)", d2.is_superdigraph(&d), true)?;
        rel("d.is_balanced()", d.is_balanced(), md.is_balanced())?;
        rel("d.is_oriented()", d.is_oriented(), md.is_oriented())?;
        rel("d.is_symmetric()", d.is_symmetric(), md.is_symmetric())?;
    }
    Ok(())
}

pub const KINDS: &[&str] = &[
    "tournament",
    "tournament-swap (size-preserving non-tournament)",
    "semicomplete",
    "semicomplete-minus-pair-plus-surplus",
    "complete-minus-arc",
    "complete",
    "circulant (regular)",
    "circulant-perturbed",
    "circuit-union (balanced)",
    "circuit-union-perturbed",
    "symmetric",
    "symmetric-plus-one-way-arc",
    "oriented",
    "oriented-plus-reverse-arc",
    "uniform",
];

/// Builds a digraph of the given kind on 0..n from raw randomness.
pub fn near_miss(kind: usize, n: usize, raw: &[(u16, u16)]) -> Dg {
    let mut a: BTreeSet<(usize, usize)> = BTreeSet::new();
    let r = |i: usize| raw[i % raw.len()];
    let pairs: Vec<(usize, usize)> = (0..n).flat_map(|u| (u + 1..n).map(move |v| (u, v))).collect();
    let tournament = |a: &mut BTreeSet<(usize, usize)>| {
        for (i, &(u, v)) in pairs.iter().enumerate() {
            if r(i).0 & 1 == 1 {
                a.insert((u, v));
            } else {
                a.insert((v, u));
            }
        }
    };
    match KINDS[kind % KINDS.len()] {
        "tournament" => tournament(&mut a),
        "tournament-swap (size-preserving non-tournament)" => {
            tournament(&mut a);
            if pairs.len() >= 2 {
                // half of the time both special pairs lie among the last four vertices
                // (a dropped tail of a row partition hides exactly there)
                let tail: Vec<usize> = (0..pairs.len()).filter(|&k| pairs[k].0 + 4 >= n).collect();
                let (i, j) = if r(900).1 % 2 == 0 && tail.len() >= 2 {
                    let a = gen::idx(r(900).0, tail.len());
                    let mut b = gen::idx(r(901).0, tail.len() - 1);
                    if b >= a {
                        b += 1;
                    }
                    (tail[a], tail[b])
                } else {
                    let i = gen::idx(r(900).0, pairs.len());
                    let mut j = gen::idx(r(901).0, pairs.len() - 1);
                    if j >= i {
                        j += 1;
                    }
                    (i, j)
                };
                let (p, q) = (pairs[i], pairs[j]);
                a.insert(p);
                a.insert((p.1, p.0));
                a.remove(&q);
                a.remove(&(q.1, q.0));
            }
        }
        "semicomplete" => {
            tournament(&mut a);
            for (i, &(u, v)) in pairs.iter().enumerate() {
                if r(i).1 % 3 == 0 {
                    a.insert((u, v));
                    a.insert((v, u));
                }
            }
        }
        "semicomplete-minus-pair-plus-surplus" => {
            tournament(&mut a);
            for (i, &(u, v)) in pairs.iter().enumerate() {
                if r(i).1 % 2 == 0 {
                    a.insert((u, v));
                    a.insert((v, u));
                }
            }
            if !pairs.is_empty() {
                let tail: Vec<usize> = (0..pairs.len()).filter(|&k| pairs[k].0 + 4 >= n).collect();
                let q = if r(902).1 % 2 == 0 && !tail.is_empty() {
                    pairs[tail[gen::idx(r(902).0, tail.len())]]
                } else {
                    pairs[gen::idx(r(902).0, pairs.len())]
                };
                a.remove(&q);
                a.remove(&(q.1, q.0));
            }
        }
        "complete-minus-arc" | "complete" => {
            for &(u, v) in &pairs {
                a.insert((u, v));
                a.insert((v, u));
            }
            if KINDS[kind % KINDS.len()] == "complete-minus-arc" && n >= 2 {
                a.remove(&gen::arc_of(r(903), n));
            }
        }
        "circulant (regular)" | "circulant-perturbed" => {
            if n >= 2 {
                for s in 1..n {
                    if r(s).0 % 3 == 0 || s == 1 {
                        for i in 0..n {
                            a.insert((i, (i + s) % n));
                        }
                    }
                }
                if KINDS[kind % KINDS.len()] == "circulant-perturbed" {
                    let e = gen::arc_of(r(904), n);
                    if !a.remove(&e) {
                        a.insert(e);
                    }
                }
            }
        }
        "circuit-union (balanced)" | "circuit-union-perturbed" => {
            if n >= 2 {
                for c in 0..4 {
                    // a circuit through a random vertex subset, skipped if it
                    // collides with arcs already present
                    let mut vs: Vec<usize> = (0..n).filter(|&v| r(c * 50 + v).1 % 2 == 0).collect();
                    if vs.len() < 2 {
                        continue;
                    }
                    let k = gen::idx(r(c).0, vs.len());
                    vs.rotate_left(k);
                    if r(c).1 & 1 == 1 {
                        vs.reverse();
                    }
                    let arcs: Vec<(usize, usize)> =
                        (0..vs.len()).map(|i| (vs[i], vs[(i + 1) % vs.len()])).collect();
                    if vs.len() == 2 || arcs.iter().any(|e| a.contains(e)) {
                        if vs.len() == 2 && !a.contains(&arcs[0]) && !a.contains(&arcs[1]) {
                            a.extend(arcs);
                        }
                        continue;
                    }
                    a.extend(arcs);
                }
                if KINDS[kind % KINDS.len()] == "circuit-union-perturbed" {
                    let e = gen::arc_of(r(905), n);
                    if !a.remove(&e) {
                        a.insert(e);
                    }
                }
            }
        }
        "symmetric" | "symmetric-plus-one-way-arc" => {
            for (i, &(u, v)) in pairs.iter().enumerate() {
                if r(i).0 % 3 == 0 {
                    a.insert((u, v));
                    a.insert((v, u));
                }
            }
            if KINDS[kind % KINDS.len()] == "symmetric-plus-one-way-arc" && n >= 2 {
                let e = gen::arc_of(r(906), n);
                if a.contains(&e) {
                    a.remove(&(e.1, e.0));
                } else {
                    a.insert(e);
                }
            }
        }
        "oriented" | "oriented-plus-reverse-arc" => {
            for (i, &(u, v)) in pairs.iter().enumerate() {
                match r(i).0 % 4 {
                    0 => {
                        a.insert((u, v));
                    }
                    1 => {
                        a.insert((v, u));
                    }
                    _ => {}
                }
            }
            if KINDS[kind % KINDS.len()] == "oriented-plus-reverse-arc" {
                if let Some(&(u, v)) = a.iter().nth(gen::idx(r(907).0, a.len().max(1))) {
                    a.insert((v, u));
                }
            }
        }
        _ => {
            if n >= 2 {
                let target = gen::idx(r(908).0, raw.len());
                for &p in raw.iter().take(target) {
                    a.insert(gen::arc_of(p, n));
                }
            }
        }
    }
    Dg {
        order: n,
        arcs: a.into_iter().collect(),
    }
}

/// Derives H from D: delete arcs and/or trailing vertices (true cases), then
/// optionally add one foreign arc or vertex (false cases).
pub fn derive_h(d: &Dg, mode: u8, raw: &[(u16, u16)]) -> Dg {
    let mut order = d.order;
    let mut arcs: Vec<(usize, usize)> = d.arcs.clone();
    if mode & 1 == 1 {
        arcs = arcs
            .into_iter()
            .enumerate()
            .filter(|(i, _)| raw[i % raw.len()].1 % 3 != 0)
            .map(|(_, e)| e)
            .collect();
    }
    if mode & 2 == 2 && order > 1 {
        order = 1 + gen::idx(raw[3].0, order);
        arcs.retain(|&(u, v)| u < order && v < order);
    }
    match (mode >> 2) % 4 {
        1 if order >= 2 => {
            // one foreign arc, if the pair is free in D
            let e = gen::arc_of(raw[5], order);
            if !d.arcs.contains(&e) && !arcs.contains(&e) {
                arcs.push(e);
            }
        }
        2 => order = d.order + 1 + (raw[6].0 % 2) as usize,
        _ => {}
    }
    arcs.sort();
    arcs.dedup();
    Dg { order, arcs }
}

fn relabel(d: &Dg, labels: &[usize]) -> MapDg {
    MapDg {
        vertices: labels[..d.order].to_vec(),
        arcs: d.arcs.iter().map(|&(u, v)| (labels[u], labels[v])).collect(),
    }
}

fn model_g(g: &G) -> UModel {
    match g {
        G::Contiguous(d) => reprs::model_of(d),
        G::Map(d) => reprs::map_model_of(d),
    }
}

impl Prop for C12 {
    type Case = Case;
    const ID: &'static str = "C12";
    const NUM: u64 = 12;
    const RULE: &'static str = "digraphs built for near misses (order 1..40 quick / 1..90 thorough): tournaments and size-preserving non-tournaments (one pair doubled, another emptied), semicomplete digraphs and the same minus one pair with surplus arcs elsewhere, complete / complete minus one arc, circulants (regular) and one-arc perturbations, arc-disjoint circuit unions (balanced) and perturbations, symmetric / oriented digraphs and one-arc perturbations, uniform digraphs; each also relabelled onto non-contiguous AdjacencyMap ids; pairs (H, D) with H derived from D by deleting arcs / trailing vertices and optionally adding one foreign arc or vertex; all five representations; CPU count k in 1..=16 (AdjacencyList::is_semicomplete is threaded); enum leg: all pairs of digraphs of order <=2 and all digraphs of order 3 against a derived H. One case in 40 has order 63..70. Half of the near-miss pairs are drawn from the last four vertices. Up to order 40 the blanket implementations (is_subdigraph, is_superdigraph, is_spanning_subdigraph, is_balanced, is_oriented, is_symmetric) are also run on a user-defined representation that enumerates vertices and arcs in its own order with loose size hints. Non-trivial = a perturbed (near-miss) kind, or a positive kind of order >=5, or an (H, D) pair with a foreign arc or vertex; distinct = distinct serialised case.";
    const ASSUMPTIONS: &'static [&'static str] = &["order-0 digraphs are not exercised (no listed constructor produces one)"];

    fn legs(tier: Tier) -> Vec<Leg> {
        vec![
            Leg {
                name: "random",
                kind: LegKind::Random {
                    cases: tier.pick(7000, 60000),
                },
                workers: 16,
                build: Build::Normal,
            },
            Leg {
                name: "enum",
                kind: LegKind::Enumerated { count: 64 * 8 + 16 + 1 },
                workers: 4,
                build: Build::Normal,
            },
            Leg {
                name: "huge-dense",
                kind: LegKind::Random {
                    cases: tier.pick(24, 200),
                },
                workers: 16,
                build: Build::Normal,
            },
        ]
    }

    fn strategy(leg: &str, tier: Tier) -> BoxedStrategy<Case> {
        if leg == "huge-dense" {
            return (gen::dense_near_miss(), 1..=16_usize)
                .prop_map(|((d, kind), cpus)| Case {
                    h: G::Contiguous(Dg { order: d.order, arcs: d.arcs.iter().copied().step_by(3).collect() }),
                    d: G::Contiguous(d),
                    cpus,
                    kind,
                })
                .boxed();
        }
        let max: usize = tier.pick(40, 90);
        (
            0..KINDS.len(),
            prop_oneof![8 => 1..=6_usize, 20 => 5..=16_usize, 11 => 17..=max, 1 => 63..=70_usize],
            vec((any::<u16>(), any::<u16>()), 1000),
            any::<u8>(),
            1..=16_usize,
            any::<u32>(),
            any::<u8>(),
        )
            .prop_map(|(kind, n, raw, mode, cpus, bits, as_map)| {
                let as_map = as_map % 4 == 0;
                let n = if as_map { n.min(12) } else { n };
                let d = near_miss(kind, n, &raw);
                let h = derive_h(&d, mode, &raw);
                let name = KINDS[kind % KINDS.len()].to_string();
                if as_map {
                    // strictly increasing labels from the pool
                    let need = d.order.max(h.order);
                    let mut labels: Vec<usize> = gen::MAP_POOL
                        .iter()
                        .enumerate()
                        .filter(|(i, _)| bits >> i & 1 == 1)
                        .map(|(_, &v)| v)
                        .collect();
                    for &v in gen::MAP_POOL {
                        if labels.len() >= need {
                            break;
                        }
                        if !labels.contains(&v) {
                            labels.push(v);
                        }
                    }
                    labels.sort_unstable();
                    // sometimes H gets one label that D does not have (preferably
                    // on an isolated vertex): V(H) is then no subset of V(D) even
                    // though |V(H)| <= |V(D)| and A(H) may still be a subset
                    let mut h_labels = labels.clone();
                    if bits % 3 == 0 {
                        let iso = (0..h.order).rev().find(|&v| h.arcs.iter().all(|&(a, b)| a != v && b != v));
                        let victim = iso.unwrap_or(h.order - 1);
                        if let Some(&fresh) = gen::MAP_POOL.iter().rev().find(|x| !labels.contains(x)) {
                            h_labels[victim] = fresh;
                        }
                    }
                    Case {
                        d: G::Map(relabel(&d, &labels)),
                        h: G::Map(relabel(&h, &h_labels)),
                        cpus,
                        kind: format!("map:{name}"),
                    }
                } else {
                    Case {
                        d: G::Contiguous(d),
                        h: G::Contiguous(h),
                        cpus,
                        kind: name,
                    }
                }
            })
            .boxed()
    }

    fn enum_case(_leg: &str, _tier: Tier, idx: u64) -> Option<Case> {
        let raw: Vec<(u16, u16)> = (0..16).map(|i| ((idx as u16).wrapping_mul(31).wrapping_add(i * 7919), (i * 13 + idx as u16) )).collect();
        let (d, h) = if idx < 64 * 8 {
            let d = gen::nth_digraph(3, idx / 8);
            let h = derive_h(&d, (idx % 8) as u8 | (((idx / 3) % 4) as u8) << 2, &raw);
            (d, h)
        } else if idx < 64 * 8 + 16 {
            let i = idx - 64 * 8;
            (gen::nth_digraph(2, i / 4), gen::nth_digraph(2, i % 4))
        } else {
            (gen::nth_digraph(1, 0), gen::nth_digraph(1, 0))
        };
        Some(Case {
            d: G::Contiguous(d),
            h: G::Contiguous(h),
            cpus: 1 + (idx % 2) as usize,
            kind: "enum".into(),
        })
    }

    fn shrink(c: &Case) -> Vec<Case> {
        let mut out = vec![];
        let shrink_g = |g: &G| -> Vec<G> {
            match g {
                G::Contiguous(d) => gen::shrink_dg(d)
                    .into_iter()
                    .filter(|(_, k)| k.map_or(true, |k| k + 1 == d.order))
                    .map(|(d, _)| G::Contiguous(d))
                    .collect(),
                G::Map(d) => gen::shrink_map(d).into_iter().map(G::Map).collect(),
            }
        };
        for d in shrink_g(&c.d) {
            out.push(Case { d, ..c.clone() });
        }
        for h in shrink_g(&c.h) {
            out.push(Case { h, ..c.clone() });
        }
        if c.cpus > 1 {
            out.push(Case { cpus: 1, ..c.clone() });
        }
        out
    }

    fn check(c: &Case, obs: &mut Obs) -> Verdict {
        let md = model_g(&c.d);
        let mh = model_g(&c.h);
        let cpus = Cpus::new();
        let (res, seen) = cpus.with(c.cpus, sys::rot(), || -> Verdict {
            match (&c.d, &c.h) {
                (G::Contiguous(d), G::Contiguous(h)) if c.kind.starts_with("dense:") => {
                    // dense digraphs of 127..400 vertices: the two representations with
                    // threaded / word-packed predicates
                    check_preds(&AdjacencyList::build(d), &AdjacencyList::build(h), &md, &mh, "AdjacencyList")?;
                    check_preds(&AdjacencyMatrix::build(d), &AdjacencyMatrix::build(h), &md, &mh, "AdjacencyMatrix")
                }
                (G::Contiguous(d), G::Contiguous(h)) => {
                    check_preds(&AdjacencyList::build(d), &AdjacencyList::build(h), &md, &mh, "AdjacencyList")?;
                    check_preds(&AdjacencyMap::build(d), &AdjacencyMap::build(h), &md, &mh, "AdjacencyMap")?;
                    check_preds(&AdjacencyMatrix::build(d), &AdjacencyMatrix::build(h), &md, &mh, "AdjacencyMatrix")?;
                    check_preds(&EdgeList::build(d), &EdgeList::build(h), &md, &mh, "EdgeList")?;
                    check_preds(
                        &reprs::build_unit_weighted(d),
                        &reprs::build_unit_weighted(h),
                        &md,
                        &mh,
                        "AdjacencyListWeighted",
                    )
                }
                (G::Map(d), G::Map(h)) => {
                    let gd = reprs::build_map(d);
                    let gh = reprs::build_map(h);
                    reprs::same(&gd, &md, "building the non-contiguous AdjacencyMap d through the public API")?;
                    reprs::same(&gh, &mh, "building the non-contiguous AdjacencyMap h through the public API")?;
                    check_preds(&gd, &gh, &md, &mh, "AdjacencyMap(non-contiguous)")
                }
                _ => Err("harness: mixed operand kinds".into()),
            }
        });
        res?;
        if md.order() <= 40 && mh.order() <= 40 {
            check_user_defined(&md, &mh, md.size() * 3 + mh.size() + c.cpus)?;
        }
        let perturbed = c.kind.contains("perturbed")
            || c.kind.contains("swap")
            || c.kind.contains("minus")
            || c.kind.contains("plus");
        let foreign = !mh.is_subdigraph_of(&md);
        let positives = [
            ("complete", md.is_complete()),
            ("semicomplete", md.is_semicomplete()),
            ("tournament", md.is_tournament()),
            ("regular", md.is_regular()),
            ("balanced", md.is_balanced()),
            ("symmetric", md.is_symmetric()),
            ("oriented", md.is_oriented()),
        ];
        for (n, v) in positives {
            if v && md.order() >= 3 {
                obs.label(format!("is_{n}=true (order>=3)"));
            }
        }
        obs.label(format!("kind={}", c.kind));
        obs.label(if mh.is_subdigraph_of(&md) { "H-is-subdigraph" } else { "H-is-not-subdigraph" });
        if mh.is_spanning_subdigraph_of(&md) {
            obs.label("H-is-spanning");
        }
        if seen < md.order() {
            obs.label("threads < rows");
        }
        if perturbed || (!c.kind.contains("uniform") && c.kind != "enum" && md.order() >= 5) || foreign {
            obs.nontrivial();
        }
        Ok(())
    }
}
