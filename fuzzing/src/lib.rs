// placeholder so that cargo-fuzz finds a parent package
