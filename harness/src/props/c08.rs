//! C08 — Floyd-Warshall: the exact all-pairs distance matrix.

use crate::{
    ensure,
    gen::{self, WDg},
    reprs,
    runner::{Build, Leg, LegKind, Obs, Prop, Tier, Verdict},
};
use graaf::{BellmanFordMoore, DijkstraDist, FloydWarshall};
use proptest::prelude::*;
use serde::{Deserialize, Serialize};

#[derive(Clone, Debug, Serialize, Deserialize)]
pub struct Case {
    pub g: WDg<isize>,
    #[serde(default)]
    pub family: String,
}

pub struct C08;

fn no_negative_circuit(g: &WDg<isize>) -> bool {
    let all: Vec<usize> = (0..g.order).collect();
    !reprs::wmodel_of(g).walk_dp(&all).negative_circuit
}

fn nth(n: usize, mut i: u64) -> WDg<isize> {
    let pal = [-1_isize, 0, 2];
    let mut arcs = vec![];
    for u in 0..n {
        for v in 0..n {
            if u != v {
                let d = i % 4;
                i /= 4;
                if d > 0 {
                    arcs.push((u, v, pal[(d - 1) as usize]));
                }
            }
        }
    }
    WDg { order: n, arcs }
}

impl Prop for C08 {
    type Case = Case;
    const ID: &'static str = "C08";
    const NUM: u64 = 8;
    const RULE: &'static str = "AdjacencyListWeighted<isize> digraphs without negative circuits by construction (order 1..12 quick / 1..40 thorough): non-negative and potential-based weights as generated; signed classes are kept when the reference finds no negative circuit and otherwise made non-negative by taking absolute values; zero-weight circuits optionally planted; enum leg: every digraph of order <=3 with weights {-1,0,2} that has no negative circuit. About one random case in 60..150 has a large order (17..140, incl. 63..66 and 127..130). distances() is called twice on the same instance and must return the same matrix. Non-trivial = a negative arc, an unreachable ordered pair, and some shortest walk with >=2 intermediate vertices; distinct = distinct serialised case.";
    const ASSUMPTIONS: &'static [&'static str] = &[
        "digraphs with a negative circuit are outside the property and never generated",
        "walk sums stay far inside isize",
    ];

    fn legs(tier: Tier) -> Vec<Leg> {
        vec![
            Leg {
                name: "random",
                kind: LegKind::Random {
                    cases: tier.pick(30000, 150000),
                },
                workers: 16,
                build: Build::Normal,
            },
            Leg {
                name: "enum",
                kind: LegKind::Enumerated {
                    count: 4_u64.pow(6) + 16 + 1,
                },
                workers: 4,
                build: Build::Normal,
            },
            Leg {
                name: "huge",
                kind: LegKind::Random {
                    cases: tier.pick(2, 20),
                },
                workers: 16,
                build: Build::Normal,
            },
        ]
    }

    fn strategy(leg: &str, tier: Tier) -> BoxedStrategy<Case> {
        if leg == "huge" {
            // cubic algorithm: orders 150..400
            return gen::huge_wisize(400)
                .prop_map(|(mut g, mut family)| {
                    if !no_negative_circuit(&g) {
                        for a in &mut g.arcs {
                            a.2 = a.2.abs();
                        }
                        family.push_str("+abs");
                    }
                    Case { g, family }
                })
                .boxed();
        }
        (
            gen::weighted_isize_big_rate(tier.pick(12, 40), 150),
            any::<u8>(),
            proptest::collection::vec(any::<u16>(), 2..=4),
        )
            .prop_map(|((mut g, mut family), plant, picks)| {
                if plant % 6 == 0 {
                    crate::props::c07::plant_circuit(&mut g, &picks, 0);
                    family.push_str("+zerocircuit");
                }
                if !no_negative_circuit(&g) {
                    for a in &mut g.arcs {
                        a.2 = a.2.abs();
                    }
                    family.push_str("+abs");
                }
                Case { g, family }
            })
            .boxed()
    }

    fn enum_case(_leg: &str, _tier: Tier, mut idx: u64) -> Option<Case> {
        let g = if idx < 4_u64.pow(6) {
            nth(3, idx)
        } else {
            idx -= 4_u64.pow(6);
            if idx < 16 {
                nth(2, idx)
            } else {
                nth(1, 0)
            }
        };
        no_negative_circuit(&g).then(|| Case {
            g,
            family: "enum".into(),
        })
    }

    fn shrink(c: &Case) -> Vec<Case> {
        gen::shrink_wdg(&c.g, gen::simpler_isize)
            .into_iter()
            .filter(|(g, _)| no_negative_circuit(g))
            .map(|(g, _)| Case {
                g,
                family: String::new(),
            })
            .collect()
    }

    fn check(c: &Case, obs: &mut Obs) -> Verdict {
        let m = reprs::wmodel_of(&c.g);
        let g = reprs::build_weighted(&c.g);
        let n = c.g.order;
        ensure!(no_negative_circuit(&c.g), "harness: case has a negative circuit (outside the property)");

        let mut fw = FloydWarshall::new(&g);
        let first = fw.distances().clone();
        // asking the same instance again must give the same matrix
        let dm = fw.distances();
        ensure!(*dm == first, "a second distances() call on the same instance returned a different matrix");
        if n <= 12 {
            // clones, and clone_from targets built over another digraph
            let other = reprs::build_weighted(&WDg { order: n + 2, arcs: (0..n + 1).map(|v| (v, v + 1, 2_isize)).collect() });
            for used_source in [false, true] {
                let mut src = FloydWarshall::new(&g);
                if used_source {
                    let _ = src.distances();
                }
                let cl = src.clone().distances().clone();
                ensure!(cl == first, "a clone of a {} instance returned a different matrix", if used_source { "used" } else { "fresh" });
                for used_target in [false, true] {
                    let mut t = FloydWarshall::new(&other);
                    if used_target {
                        let _ = t.distances();
                    }
                    t.clone_from(&src);
                    let r = t.distances().clone();
                    ensure!(
                        r == first,
                        "clone_from onto a {} instance built over another digraph from a {} instance returned {r:?}, a fresh instance {first:?}",
                        if used_target { "used" } else { "fresh" },
                        if used_source { "used" } else { "fresh" }
                    );
                }
            }
        }
        let mut unreachable_pair = false;
        let mut long_walk = false;
        let hop_model = m.unweighted();
        for u in 0..n {
            let r = m.walk_dp(&[u]);
            for v in 0..n {
                let got = dm[(u, v)];
                match r.dist[&v] {
                    None => {
                        unreachable_pair = true;
                        ensure!(
                            got == isize::MAX,
                            "distances()[({u}, {v})] = {got} but {v} is unreachable from {u}"
                        );
                    }
                    Some(x) => {
                        ensure!(
                            got != isize::MAX && got as i128 == x,
                            "distances()[({u}, {v})] = {} but the minimum walk weight is {x}",
                            if got == isize::MAX { "isize::MAX".to_string() } else { got.to_string() }
                        );
                        if u == v {
                            ensure!(got == 0, "distances()[({u}, {u})] = {got}, not 0");
                        }
                    }
                }
            }
            if r.rounds >= 3 {
                long_walk = true;
            }
            // row u equals Bellman-Ford-Moore from u
            let mut bfm = BellmanFordMoore::new(&g, u);
            let row = bfm.distances().map(<[isize]>::to_vec);
            let Some(row) = row else {
                return Err(format!("BellmanFordMoore from {u} returned None on a digraph without negative circuit"));
            };
            for v in 0..n {
                ensure!(
                    row[v] == dm[(u, v)],
                    "row {u} of Floyd-Warshall differs from BellmanFordMoore at {v}: {} vs {}",
                    dm[(u, v)],
                    row[v]
                );
            }
            let _ = &hop_model;
        }
        let nonneg = c.g.arcs.iter().all(|a| a.2 >= 0);
        if nonneg {
            let ug = WDg {
                order: n,
                arcs: c.g.arcs.iter().map(|&(u, v, w)| (u, v, w as usize)).collect(),
            };
            let gu = reprs::build_weighted(&ug);
            for u in 0..n {
                let dj = DijkstraDist::new(&gu, std::iter::once(u)).distances();
                for v in 0..n {
                    let f = dm[(u, v)];
                    let same = if dj[v] == usize::MAX {
                        f == isize::MAX
                    } else {
                        f != isize::MAX && f as usize == dj[v]
                    };
                    ensure!(same, "Floyd-Warshall ({u},{v}) = {f} but Dijkstra from {u} gives {}", dj[v]);
                }
            }
            obs.label("nonneg (Dijkstra differential ran)");
        }
        let neg_arc = c.g.arcs.iter().any(|a| a.2 < 0);
        if neg_arc {
            obs.label("has-negative-arc");
        }
        if unreachable_pair {
            obs.label("has-unreachable-pair");
        }
        if long_walk {
            obs.label("shortest-walk-with->=2-intermediates");
        }
        if neg_arc && unreachable_pair && long_walk {
            obs.nontrivial();
        }
        if !c.family.is_empty() {
            obs.label(format!("family={}", c.family));
        }
        Ok(())
    }
}
