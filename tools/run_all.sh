#!/bin/bash
# tools/run_all.sh quick|thorough [IDs...] — runs checks one after another, one summary line each.
cd "$(dirname "$(readlink -f "$0")")/.."
TIER=${1:-quick}; shift
IDS=${*:-C01 C02 C03 C04 C05 C06 C07 C08 C09 C10 C11 C12 C13 C14 C15 C16 C17 C18 C19 C20}
mkdir -p work/logs
for p in $IDS; do
  s=$(date +%s)
  ./check $p $TIER > work/logs/$p.$TIER.log 2>&1; e=$?
  echo "$p $TIER exit=$e wall=$(( $(date +%s) - s ))s seed=${VERIF_SEED:-0} $(grep -m1 " $TIER:" work/logs/$p.$TIER.log | cut -c1-100)"
  grep -E "^VIOLATION|^INCONCLUSIVE|reason:" work/logs/$p.$TIER.log | head -4
done
