#!/bin/bash
# selftest/isolated.sh <dir> : creates <dir>/verif (tracked files of /verif HEAD + working changes)
# and <dir>/repo (a copy of /repo's HEAD), with the harness pointed at <dir>/repo.  Checks run there
# with GV_ROOT=<dir>/verif never touch /repo or /verif.  Remove <dir> when done.
set -eu
D=$(readlink -m "$1"); mkdir -p "$D"
rm -rf "$D/verif" "$D/repo"
git -C /repo worktree prune >/dev/null 2>&1 || true
mkdir -p "$D/repo" && git -C /repo archive HEAD | tar -x -C "$D/repo"
cp /repo/Cargo.lock "$D/repo/" 2>/dev/null || true
mkdir -p "$D/verif" && (cd /verif && git ls-files -z | xargs -0 tar -c) | tar -x -C "$D/verif"
sed -i "s#path = \"/repo\"#path = \"$D/repo\"#" "$D/verif/harness/Cargo.toml"


( cd "$D/repo" && git init -q && git add -A && git -c user.email=x@x -c user.name=x commit -qm base )
echo "$D ready: GV_ROOT=$D/verif $D/verif/check <ID> quick ; repo copy at $D/repo"
