//! C16 — conversions between representations preserve the digraph.

use crate::{
    ensure,
    gen::{self, Dg},
    model::UModel,
    reprs::{self, Unweighted},
    runner::{guarded, Build, Leg, LegKind, Obs, Prop, Tier, Verdict},
};
use graaf::{
    AdjacencyList, AdjacencyListWeighted, AdjacencyMap, AdjacencyMatrix, Arcs, ArcsWeighted,
    EdgeList, Order, Size, Vertices,
};
use proptest::{collection::vec, prelude::*};
use serde::{Deserialize, Serialize};
use std::collections::{BTreeMap, BTreeSet};

#[derive(Clone, Debug, Serialize, Deserialize)]
pub struct Case {
    pub g: Dg,
    /// representation ids 0..4 (AL, AMap, AMatrix, EL); first = origin
    pub chain: Vec<u8>,
    /// out-neighbour rows handed to From<IntoIterator<Item = BTreeSet / BTreeMap>>
    pub rows: Vec<Vec<usize>>,
    /// arcs handed to From<IntoIterator<Item = (usize, usize)>>
    pub arcs: Vec<(usize, usize)>,
}

#[derive(Clone, Debug, PartialEq, Eq)]
enum Any {
    L(AdjacencyList),
    M(AdjacencyMap),
    X(AdjacencyMatrix),
    E(EdgeList),
}

impl Any {
    fn build(id: u8, g: &Dg) -> Self {
        match id % 4 {
            0 => Any::L(AdjacencyList::build(g)),
            1 => Any::M(AdjacencyMap::build(g)),
            2 => Any::X(AdjacencyMatrix::build(g)),
            _ => Any::E(EdgeList::build(g)),
        }
    }
    fn name(&self) -> &'static str {
        match self {
            Any::L(_) => "AdjacencyList",
            Any::M(_) => "AdjacencyMap",
            Any::X(_) => "AdjacencyMatrix",
            Any::E(_) => "EdgeList",
        }
    }
    fn convert(self, to: u8) -> Self {
        match (self, to % 4) {
            (Any::L(d), 0) => Any::L(d),
            (Any::L(d), 1) => Any::M(AdjacencyMap::from(d)),
            (Any::L(d), 2) => Any::X(AdjacencyMatrix::from(d)),
            (Any::L(d), _) => Any::E(EdgeList::from(d)),
            (Any::M(d), 0) => Any::L(AdjacencyList::from(d)),
            (Any::M(d), 1) => Any::M(d),
            (Any::M(d), 2) => Any::X(AdjacencyMatrix::from(d)),
            (Any::M(d), _) => Any::E(EdgeList::from(d)),
            (Any::X(d), 0) => Any::L(AdjacencyList::from(d)),
            (Any::X(d), 1) => Any::M(AdjacencyMap::from(d)),
            (Any::X(d), 2) => Any::X(d),
            (Any::X(d), _) => Any::E(EdgeList::from(d)),
            (Any::E(d), 0) => Any::L(AdjacencyList::from(d)),
            (Any::E(d), 1) => Any::M(AdjacencyMap::from(d)),
            (Any::E(d), 2) => Any::X(AdjacencyMatrix::from(d)),
            (Any::E(d), _) => Any::E(d),
        }
    }
    fn same(&self, m: &UModel, what: &str) -> Verdict {
        match self {
            Any::L(d) => reprs::same(d, m, what),
            Any::M(d) => reprs::same(d, m, what),
            Any::X(d) => reprs::same(d, m, what),
            Any::E(d) => reprs::same(d, m, what),
        }
    }
    fn weighted_u(self) -> AdjacencyListWeighted<usize> {
        match self {
            Any::L(d) => d.into(),
            Any::M(d) => d.into(),
            Any::X(d) => d.into(),
            Any::E(d) => d.into(),
        }
    }
    fn weighted_i(self) -> AdjacencyListWeighted<isize> {
        match self {
            Any::L(d) => d.into(),
            Any::M(d) => d.into(),
            Any::X(d) => d.into(),
            Any::E(d) => d.into(),
        }
    }
}


/// Debug renderings of the two arc-iterator conversions of a Vec of arcs.
fn a1_dbg(arcs: &[(usize, usize)]) -> (Result<String, String>, Result<String, String>) {
    (
        guarded(|| format!("{:?}", AdjacencyMatrix::from(arcs.to_vec()))),
        guarded(|| format!("{:?}", EdgeList::from(arcs.to_vec()))),
    )
}

/// All five iterator conversions on a small fixed input, judged against the
/// definition; called from inside the `next()` of an iterator that another
/// conversion is consuming.
fn reentrant_conversions() -> Verdict {
    let arcs = vec![(2, 0), (0, 1), (2, 0), (1, 3)];
    let mut am = UModel::contiguous(4);
    for &(u, v) in &arcs {
        am.a.insert((u, v), ());
    }
    reprs::same(&EdgeList::from(arcs.clone()), &am, "EdgeList::from(arcs) called from inside another conversion's iterator")?;
    reprs::same(&AdjacencyMatrix::from(arcs.clone()), &am, "AdjacencyMatrix::from(arcs) called from inside another conversion's iterator")?;
    let rows: Vec<BTreeSet<usize>> = vec![BTreeSet::from([1]), BTreeSet::from([3]), BTreeSet::from([0]), BTreeSet::new()];
    reprs::same(&AdjacencyList::from(rows.clone()), &am, "AdjacencyList::from(rows) called from inside another conversion's iterator")?;
    reprs::same(&AdjacencyMap::from(rows.clone()), &am, "AdjacencyMap::from(rows) called from inside another conversion's iterator")?;
    let wrows: Vec<BTreeMap<usize, usize>> = rows.iter().map(|r| r.iter().map(|&v| (v, 7)).collect()).collect();
    reprs::same(&AdjacencyListWeighted::<usize>::from(wrows), &am, "AdjacencyListWeighted::from(rows) called from inside another conversion's iterator")?;
    // and conversions between representations
    let l = AdjacencyList::from(rows);
    reprs::same(&AdjacencyMatrix::from(l.clone()), &am, "AdjacencyList -> AdjacencyMatrix called from inside another conversion's iterator")?;
    reprs::same(&EdgeList::from(AdjacencyMap::from(l)), &am, "AdjacencyList -> AdjacencyMap -> EdgeList called from inside another conversion's iterator")?;
    Ok(())
}

pub struct C16;

fn rows_valid(rows: &[Vec<usize>]) -> bool {
    !rows.is_empty()
        && rows
            .iter()
            .enumerate()
            .all(|(u, r)| r.iter().all(|&v| v != u && v < rows.len()))
}

impl Prop for C16 {
    type Case = Case;
    const ID: &'static str = "C16";
    const NUM: u64 = 16;
    const RULE: &'static str = "contiguous digraphs (order 1..24 quick / 1..70 thorough); every case converts the digraph from each of the four unweighted representations into each other one (12 ordered pairs, round trips compared with ==), into AdjacencyListWeighted<usize> and <isize> (8 conversions, all weights 1), and along a generated chain of 2..4 conversions; plus From<rows> (BTreeSet rows for AdjacencyList/AdjacencyMap, BTreeMap rows for AdjacencyListWeighted) and From<arcs> (AdjacencyMatrix, EdgeList) with generated valid inputs (duplicates, arbitrary order) and invalid ones (self-loop, head >= row count, empty). About one random case in 25 has a large order (17..140, weighted towards 63..66, 96, 127..130, 140; at most 700 arcs). A low-rate 'huge' leg adds digraphs of 200..3100 vertices with O(n) arcs (paths, circuits, stars, wheels, trees, one row of exactly 255/256/257 out-neighbours, arcs in the last rows, complete below 300). Rows and arcs are also passed through iterators with inexact size hints (filter, from_fn, chain+take_while, and a wrapper reporting each honest hint shape: exact, (0, None), (k, None) with 0 < k <= len, loose upper bounds) and through iterators whose next() itself runs all five iterator conversions on another input; all must behave exactly like the Vec. Non-trivial = size >=2 and order >=9 (bit matrix spans two words), or an invalid row/arc input; distinct = distinct serialised case.";
    const ASSUMPTIONS: &'static [&'static str] = &[
        "an empty arc iterator handed to EdgeList::from is only required to give a digraph with at least one vertex (the documentation does not promise a panic)",
    ];

    fn legs(tier: Tier) -> Vec<Leg> {
        vec![
            Leg {
                name: "random",
                kind: LegKind::Random {
                    cases: tier.pick(30000, 150000),
                },
                workers: 16,
                build: Build::Normal,
            },
            Leg {
                name: "huge",
                kind: LegKind::Random {
                    cases: tier.pick(3, 30),
                },
                workers: 16,
                build: Build::Normal,
            },
        ]
    }

    fn strategy(leg: &str, tier: Tier) -> BoxedStrategy<Case> {
        if leg == "huge" {
            return (gen::huge_dg(), vec(0..4_u8, 2..=3))
                .prop_map(|((g, _), chain)| {
                    let mut rows: Vec<Vec<usize>> = vec![vec![]; g.order];
                    for &(u, v) in &g.arcs {
                        rows[u].push(v);
                    }
                    let mut arcs = g.arcs.clone();
                    arcs.reverse();
                    if arcs.is_empty() {
                        arcs.push((0, 1));
                    }
                    Case { g, chain, rows, arcs }
                })
                .boxed();
        }
        (
            gen::digraph_labeled_big(tier.pick(40, 70)).prop_map(|(g, _)| g),
            vec(0..4_u8, 2..=5),
            any::<u8>(),
            any::<u8>(),
            vec(any::<u16>(), 8),
        )
            .prop_map(|(g, chain, rclass, aclass, raw)| {
                let n = g.order;
                let mut rows: Vec<Vec<usize>> = vec![vec![]; n];
                for &(u, v) in &g.arcs {
                    rows[u].push(v);
                }
                match rclass % 12 {
                    0 => rows[gen::idx(raw[0], n)].push(gen::idx(raw[0], n)), // self-loop
                    1 => rows[gen::idx(raw[1], n)].push(n),                   // head == row count
                    2 => rows[gen::idx(raw[2], n)].push(n + 1 + raw[3] as usize), // far head
                    3 => rows.clear(),                                          // no vertex at all
                    _ => {}
                }
                let mut arcs: Vec<(usize, usize)> = g.arcs.clone();
                // arbitrary order and duplicates
                arcs.reverse();
                if !arcs.is_empty() {
                    let k = gen::idx(raw[4], arcs.len());
                    arcs.rotate_left(k);
                    arcs.push(arcs[gen::idx(raw[5], arcs.len())]);
                }
                match aclass % 12 {
                    0 => {
                        let x = gen::idx(raw[6], n + 2);
                        arcs.insert(gen::idx(raw[7], arcs.len() + 1), (x, x)); // self-loop
                    }
                    1 => arcs.clear(),
                    _ => {}
                }
                Case { g, chain, rows, arcs }
            })
            .boxed()
    }

    fn shrink(c: &Case) -> Vec<Case> {
        let mut out: Vec<Case> = vec![];
        for (g, k) in gen::shrink_dg(&c.g) {
            if k.is_none() {
                out.push(Case { g, ..c.clone() });
            }
        }
        for i in 0..c.arcs.len() {
            let mut arcs = c.arcs.clone();
            arcs.remove(i);
            out.push(Case { arcs, ..c.clone() });
        }
        for i in 0..c.rows.len() {
            for j in 0..c.rows[i].len() {
                let mut rows = c.rows.clone();
                rows[i].remove(j);
                out.push(Case { rows, ..c.clone() });
            }
        }
        if c.chain.len() > 2 {
            let mut chain = c.chain.clone();
            chain.pop();
            out.push(Case { chain, ..c.clone() });
        }
        out
    }

    fn check(c: &Case, obs: &mut Obs) -> Verdict {
        let m = reprs::model_of(&c.g);
        // all 12 ordered pairs + round trips
        for a in 0..4_u8 {
            let origin = Any::build(a, &c.g);
            origin.same(&m, &format!("{} built from the model", origin.name()))?;
            for b in 0..4_u8 {
                let what = format!("{} -> {}", origin.name(), Any::build(b, &c.g).name());
                let conv = guarded(|| origin.clone().convert(b)).map_err(|p| format!("{what}: conversion panicked: {p}"))?;
                conv.same(&m, &what)?;
                let back = guarded(|| conv.clone().convert(a)).map_err(|p| format!("{what} and back: conversion panicked: {p}"))?;
                ensure!(back == origin, "{what} and back is not the identity: {back:?} vs {origin:?}");
            }
            // weighted conversions: every arc weight 1
            let wu = guarded(|| origin.clone().weighted_u()).map_err(|p| format!("{} -> AdjacencyListWeighted<usize> panicked: {p}", origin.name()))?;
            reprs::same(&wu, &m, &format!("{} -> AdjacencyListWeighted<usize>", origin.name()))?;
            ensure!(
                wu.arcs_weighted().all(|(_, _, w)| *w == 1),
                "{} -> AdjacencyListWeighted<usize>: some arc weight is not 1",
                origin.name()
            );
            let wi = guarded(|| origin.clone().weighted_i()).map_err(|p| format!("{} -> AdjacencyListWeighted<isize> panicked: {p}", origin.name()))?;
            reprs::same(&wi, &m, &format!("{} -> AdjacencyListWeighted<isize>", origin.name()))?;
            ensure!(
                wi.arcs_weighted().all(|(_, _, w)| *w == 1),
                "{} -> AdjacencyListWeighted<isize>: some arc weight is not 1",
                origin.name()
            );
        }
        // chain
        let mut cur = Any::build(c.chain[0], &c.g);
        let mut trail = cur.name().to_string();
        for &to in &c.chain[1..] {
            cur = guarded(|| cur.clone().convert(to)).map_err(|p| format!("chain {trail} -> {to}: panicked: {p}"))?;
            trail = format!("{trail} -> {}", cur.name());
            cur.same(&m, &format!("chain {trail}"))?;
        }

        // From rows
        let valid = rows_valid(&c.rows);
        let set_rows: Vec<BTreeSet<usize>> = c.rows.iter().map(|r| r.iter().copied().collect()).collect();
        let map_rows: Vec<BTreeMap<usize, usize>> = c
            .rows
            .iter()
            .enumerate()
            .map(|(u, r)| r.iter().map(|&v| (v, u * 5 + v)).collect())
            .collect();
        let rows_model = || {
            let mut rm = UModel::contiguous(c.rows.len());
            for (u, r) in c.rows.iter().enumerate() {
                for &v in r {
                    rm.a.insert((u, v), ());
                }
            }
            rm
        };
        let r1 = guarded(|| AdjacencyList::from(set_rows.clone()));
        let r2 = guarded(|| AdjacencyMap::from(set_rows.clone()));
        let r3 = guarded(|| AdjacencyListWeighted::<usize>::from(map_rows.clone()));
        // the same rows through iterators whose size_hint is inexact (lower bound 0,
        // upper bound too large or absent): the result must not depend on the hint
        {
            let filtered = || set_rows.clone().into_iter().filter(|_| true);
            let mut k = 0;
            let streamed = || {
                let rows = set_rows.clone();
                std::iter::from_fn(move || {
                    k += 1;
                    rows.get(k - 1).cloned()
                })
            };
            let over = || set_rows.clone().into_iter().chain(vec![BTreeSet::new(); 3]).take_while({
                let mut left = set_rows.len();
                move |_| {
                    let keep = left > 0;
                    left = left.saturating_sub(1);
                    keep
                }
            });
            let variants: Vec<(&str, Result<AdjacencyList, String>, Result<AdjacencyMap, String>)> = vec![
                ("filter", guarded(|| AdjacencyList::from(filtered())), guarded(|| AdjacencyMap::from(filtered()))),
                ("from_fn", guarded(|| AdjacencyList::from(streamed())), guarded(|| AdjacencyMap::from(streamed()))),
                ("take_while", guarded(|| AdjacencyList::from(over())), guarded(|| AdjacencyMap::from(over()))),
            ];
            for (how, l, mp) in variants {
                match (&r1, l) {
                    (Ok(a), Ok(b)) => ensure!(*a == b, "AdjacencyList::from(rows through {how}) differs from the same rows as a Vec"),
                    (Err(_), Err(_)) => {}
                    (a, b) => return Err(format!("AdjacencyList::from(rows through {how}): {} but from a Vec: {}", if b.is_ok() { "accepted" } else { "panicked" }, if a.is_ok() { "accepted" } else { "panicked" })),
                }
                match (&r2, mp) {
                    (Ok(a), Ok(b)) => ensure!(*a == b, "AdjacencyMap::from(rows through {how}) differs from the same rows as a Vec"),
                    (Err(_), Err(_)) => {}
                    (a, b) => return Err(format!("AdjacencyMap::from(rows through {how}): {} but from a Vec: {}", if b.is_ok() { "accepted" } else { "panicked" }, if a.is_ok() { "accepted" } else { "panicked" })),
                }
            }
        }
        // honest size hints of every shape, and iterators that convert other
        // inputs from inside their own next()
        {
            let same = |what: &str, a: &Result<String, String>, b: Result<String, String>| -> Verdict {
                match (a, b) {
                    (Ok(x), Ok(y)) => {
                        ensure!(*x == y, "{what} gives {y}, the same input as a Vec gives {x}");
                        Ok(())
                    }
                    (Err(_), Err(_)) => Ok(()),
                    (a, b) => Err(format!("{what}: {} but from a Vec: {}", if b.is_ok() { "accepted" } else { "panicked" }, if a.is_ok() { "accepted" } else { "panicked" })),
                }
            };
            let d1 = r1.as_ref().map(|d| format!("{d:?}")).map_err(Clone::clone);
            let d2 = r2.as_ref().map(|d| format!("{d:?}")).map_err(Clone::clone);
            let d3 = r3.as_ref().map(|d| format!("{d:?}")).map_err(Clone::clone);
            if c.rows.len() <= 40 {
                for h in gen::honest_hints(c.rows.len()) {
                    same(&format!("AdjacencyList::from(rows, size_hint {h:?})"), &d1, guarded(|| format!("{:?}", AdjacencyList::from(gen::hinted(set_rows.clone(), h)))))?;
                    same(&format!("AdjacencyMap::from(rows, size_hint {h:?})"), &d2, guarded(|| format!("{:?}", AdjacencyMap::from(gen::hinted(set_rows.clone(), h)))))?;
                    same(&format!("AdjacencyListWeighted::from(rows, size_hint {h:?})"), &d3, guarded(|| format!("{:?}", AdjacencyListWeighted::<usize>::from(gen::hinted(map_rows.clone(), h)))))?;
                }
                let trouble = std::cell::RefCell::new(None::<String>);
                let reenter = || {
                    if let Err(e) = reentrant_conversions() {
                        trouble.borrow_mut().get_or_insert(e);
                    }
                };
                same("AdjacencyList::from(rows from an iterator that converts other inputs in next())", &d1, guarded(|| format!("{:?}", AdjacencyList::from(set_rows.clone().into_iter().inspect(|_| reenter())))))?;
                same("AdjacencyMap::from(rows from an iterator that converts other inputs in next())", &d2, guarded(|| format!("{:?}", AdjacencyMap::from(set_rows.clone().into_iter().inspect(|_| reenter())))))?;
                same("AdjacencyListWeighted::from(rows from an iterator that converts other inputs in next())", &d3, guarded(|| format!("{:?}", AdjacencyListWeighted::<usize>::from(map_rows.clone().into_iter().inspect(|_| reenter())))))?;
                let x1 = a1_dbg(&c.arcs);
                if c.arcs.len() <= 120 {
                    for h in gen::honest_hints(c.arcs.len()) {
                        same(&format!("AdjacencyMatrix::from(arcs, size_hint {h:?})"), &x1.0, guarded(|| format!("{:?}", AdjacencyMatrix::from(gen::hinted(c.arcs.clone(), h)))))?;
                        same(&format!("EdgeList::from(arcs, size_hint {h:?})"), &x1.1, guarded(|| format!("{:?}", EdgeList::from(gen::hinted(c.arcs.clone(), h)))))?;
                    }
                    same("AdjacencyMatrix::from(arcs from an iterator that converts other inputs in next())", &x1.0, guarded(|| format!("{:?}", AdjacencyMatrix::from(c.arcs.clone().into_iter().inspect(|_| reenter())))))?;
                    same("EdgeList::from(arcs from an iterator that converts other inputs in next())", &x1.1, guarded(|| format!("{:?}", EdgeList::from(c.arcs.clone().into_iter().inspect(|_| reenter())))))?;
                }
                if let Some(e) = trouble.into_inner() {
                    return Err(e);
                }
            }
        }
        if valid {
            let rm = rows_model();
            reprs::same(&r1.map_err(|p| format!("AdjacencyList::from(valid rows {:?}) panicked: {p}", c.rows))?, &rm, "AdjacencyList::from(rows)")?;
            reprs::same(&r2.map_err(|p| format!("AdjacencyMap::from(valid rows {:?}) panicked: {p}", c.rows))?, &rm, "AdjacencyMap::from(rows)")?;
            let w = r3.map_err(|p| format!("AdjacencyListWeighted::from(valid rows) panicked: {p}"))?;
            reprs::same(&w, &rm, "AdjacencyListWeighted::from(rows)")?;
            for (u, v, wt) in w.arcs_weighted() {
                ensure!(*wt == u * 5 + v, "AdjacencyListWeighted::from(rows): weight of ({u},{v}) is {wt}, the row said {}", u * 5 + v);
            }
        } else {
            ensure!(r1.is_err(), "AdjacencyList::from accepted invalid rows {:?} (self-loop, out-of-range head or no vertex)", c.rows);
            ensure!(r2.is_err(), "AdjacencyMap::from accepted invalid rows {:?} (self-loop, out-of-range head or no vertex)", c.rows);
            ensure!(r3.is_err(), "AdjacencyListWeighted::from accepted invalid rows {:?}", c.rows);
            obs.label("invalid-rows");
        }

        // From arcs
        let has_loop = c.arcs.iter().any(|&(u, v)| u == v);
        let a1 = guarded(|| AdjacencyMatrix::from(c.arcs.clone()));
        let a2 = guarded(|| EdgeList::from(c.arcs.clone()));
        {
            let f1 = guarded(|| AdjacencyMatrix::from(c.arcs.clone().into_iter().filter(|_| true)));
            let f2 = guarded(|| EdgeList::from(c.arcs.clone().into_iter().filter(|_| true)));
            match (&a1, f1) {
                (Ok(x), Ok(y)) => ensure!(*x == y, "AdjacencyMatrix::from(arcs through filter) differs from the same arcs as a Vec"),
                (Err(_), Err(_)) => {}
                _ => return Err("AdjacencyMatrix::from(arcs through filter) accepts / rejects differently from the same arcs as a Vec".into()),
            }
            match (&a2, f2) {
                (Ok(x), Ok(y)) => ensure!(*x == y, "EdgeList::from(arcs through filter) differs from the same arcs as a Vec"),
                (Err(_), Err(_)) => {}
                _ => return Err("EdgeList::from(arcs through filter) accepts / rejects differently from the same arcs as a Vec".into()),
            }
        }
        if has_loop {
            ensure!(a1.is_err(), "AdjacencyMatrix::from accepted arcs with a self-loop: {:?}", c.arcs);
            ensure!(a2.is_err(), "EdgeList::from accepted arcs with a self-loop: {:?}", c.arcs);
            obs.label("arcs-with-self-loop");
        } else if c.arcs.is_empty() {
            ensure!(a1.is_err(), "AdjacencyMatrix::from accepted an empty arc iterator");
            if let Ok(e) = a2 {
                ensure!(
                    e.order() >= 1 && e.size() == 0 && e.vertices().count() == e.order() && e.arcs().count() == 0,
                    "EdgeList::from(no arcs) produced an invalid digraph {e:?}"
                );
            }
            obs.label("arcs-empty");
        } else {
            let order = c.arcs.iter().map(|&(u, v)| u.max(v)).max().unwrap() + 1;
            let mut am = UModel::contiguous(order);
            for &(u, v) in &c.arcs {
                am.a.insert((u, v), ());
            }
            reprs::same(&a1.map_err(|p| format!("AdjacencyMatrix::from(valid arcs) panicked: {p}"))?, &am, "AdjacencyMatrix::from(arcs)")?;
            reprs::same(&a2.map_err(|p| format!("EdgeList::from(valid arcs) panicked: {p}"))?, &am, "EdgeList::from(arcs)")?;
        }

        let big = m.size() >= 2 && m.order() >= 9;
        if big {
            obs.label("order>=9,size>=2");
        }
        if big || !valid || has_loop || c.arcs.is_empty() {
            obs.nontrivial();
        }
        Ok(())
    }
}
