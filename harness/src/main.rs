#![allow(dead_code, unused_imports)]
//! gv — generated-input verification harness for bsdrks/graaf.
//!
//!   gv run <ID> quick|thorough          master: replays, workers, evidence
//!   gv worker <ID> --leg L --tier T --seed S --index I --workers N --out F [--journal J]
//!   gv replay <ID> <file>               run one saved case

use gv::{
    props, runner,
    runner::{Prop, Tier, WorkerArgs},
    sys,
};

#[global_allocator]
static ALLOC: sys::Counting = sys::Counting;

macro_rules! dispatch {
    ($id:expr, $f:ident ( $($args:expr),* )) => {
        match $id {
            "C01" => $f::<props::c01::C01>($($args),*),
            "C02" => $f::<props::c02::C02>($($args),*),
            "C03" => $f::<props::c03::C03>($($args),*),
            "C04" => $f::<props::c04::C04>($($args),*),
            "C05" => $f::<props::c05::C05>($($args),*),
            "C06" => $f::<props::c06::C06>($($args),*),
            "C07" => $f::<props::c07::C07>($($args),*),
            "C08" => $f::<props::c08::C08>($($args),*),
            "C09" => $f::<props::c09::C09>($($args),*),
            "C10" => $f::<props::c10::C10>($($args),*),
            "C11" => $f::<props::c11::C11>($($args),*),
            "C12" => $f::<props::c12::C12>($($args),*),
            "C13" => $f::<props::c13::C13>($($args),*),
            "C14" => $f::<props::c14::C14>($($args),*),
            "C15" => $f::<props::c15::C15>($($args),*),
            "C16" => $f::<props::c16::C16>($($args),*),
            "C17" => $f::<props::c17::C17>($($args),*),
            "C18" => $f::<props::c18::C18>($($args),*),
            "C19" => $f::<props::c19::C19>($($args),*),
            "C20" => $f::<props::c20::C20>($($args),*),
            other => {
                eprintln!("gv: unknown property {other}");
                3
            }
        }
    };
}

fn run_p<P: Prop>(t: Tier) -> i32 {
    runner::run::<P>(t)
}
fn worker_p<P: Prop>(a: &WorkerArgs) -> i32 {
    runner::worker::<P>(a)
}
fn replay_p<P: Prop>(f: &str) -> i32 {
    runner::replay::<P>(f)
}

fn serde_json_case<T: serde::de::DeserializeOwned>(line: &str) -> Option<T> {
    runner::from_json(line)
}

fn arg<'a>(args: &'a [String], key: &str) -> Option<&'a str> {
    args.iter()
        .position(|a| a == key)
        .and_then(|i| args.get(i + 1))
        .map(String::as_str)
}

fn main() {
    let args: Vec<String> = std::env::args().collect();
    let code = match args.get(1).map(String::as_str) {
        Some("run") if args.len() >= 4 => {
            let Some(tier) = Tier::parse(&args[3]) else {
                eprintln!("gv: tier must be quick or thorough");
                std::process::exit(3);
            };
            dispatch!(args[2].as_str(), run_p(tier))
        }
        Some("worker") if args.len() >= 3 => {
            let a = WorkerArgs {
                leg: arg(&args, "--leg").unwrap_or("random").to_string(),
                tier: Tier::parse(arg(&args, "--tier").unwrap_or("quick")).unwrap_or(Tier::Quick),
                seed: arg(&args, "--seed").and_then(|s| s.parse().ok()).unwrap_or(0),
                index: arg(&args, "--index").and_then(|s| s.parse().ok()).unwrap_or(0),
                workers: arg(&args, "--workers").and_then(|s| s.parse().ok()).unwrap_or(1),
                out: arg(&args, "--out").unwrap_or("/dev/null").to_string(),
                journal: arg(&args, "--journal").map(str::to_string),
            };
            dispatch!(args[2].as_str(), worker_p(&a))
        }
        Some("replay") if args.len() >= 4 => dispatch!(args[2].as_str(), replay_p(&args[3])),
        Some("miri-cases") if args.len() >= 3 => {
            // natively: print the cases of the Miri leg, one JSON object per line
            let stride: u64 = args.get(3).and_then(|s| s.parse().ok()).unwrap_or(1).max(1);
            let offset: u64 = args.get(4).and_then(|s| s.parse().ok()).unwrap_or(0);
            match args[2].as_str() {
                "C13" => {
                    let mut k = 0_u64;
                    for case in props::c13::miri_cases() {
                        if k % stride == offset % stride {
                            println!("{}", runner::to_json(&case));
                        }
                        k += 1;
                    }
                }
                "C17" => {
                    for case in props::c17::miri_cases() {
                        println!("{}", runner::to_json(&case));
                    }
                }
                _ => {}
            }
            0
        }
        Some("mirileg") if args.len() >= 6 => {
            // gv mirileg <ID> <file> <slice> <nslices>: executes a slice of the cases in
            // <file> in-process (meant to run under `cargo miri run`); every case is
            // printed before it runs, so the last CASE line names the culprit
            let text = std::fs::read_to_string(&args[3]).unwrap_or_default();
            let slice: usize = args[4].parse().unwrap_or(0);
            let n: usize = args[5].parse::<usize>().unwrap_or(1).max(1);
            runner::install_quiet_hook();
            let mut done = 0_u64;
            for (i, line) in text.lines().enumerate() {
                if i % n != slice || line.trim().is_empty() {
                    continue;
                }
                println!("CASE {line}");
                let verdict = runner::guarded(|| match args[2].as_str() {
                    "C13" => match serde_json_case::<props::c13::Case>(line) {
                        Some(c) => <props::c13::C13 as Prop>::check(&c, &mut runner::Obs::default()),
                        None => Err("harness: bad case line".into()),
                    },
                    "C17" => match serde_json_case::<props::c17::Case>(line) {
                        Some(c) => <props::c17::C17 as Prop>::check(&c, &mut runner::Obs::default()),
                        None => Err("harness: bad case line".into()),
                    },
                    _ => Ok(()),
                })
                .unwrap_or_else(|p| Err(format!("harness panic outside a guard: {p}")));
                if let Err(m) = verdict {
                    println!("ORACLE-FAILURE {m}");
                    std::process::exit(1);
                }
                done += 1;
            }
            println!("MIRILEG-DONE {done}");
            0
        }
        Some("decode-fuzz") if args.len() >= 4 => {
            // bytes of a libFuzzer input -> the JSON case the fuzz target executed
            let data = std::fs::read(&args[3]).unwrap_or_default();
            let json = match args[2].as_str() {
                "C13" => runner::to_json(&props::c13::Case {
                    program: props::c13::program_from_bytes(&data),
                    leak: false,
                    cpus: 0,
                }),
                "C01" => runner::to_json(&props::c01::case_from_bytes(&data)),
                _ => String::new(),
            };
            if json.is_empty() {
                3
            } else {
                println!("{{\"note\":\"decoded libFuzzer input {}\",\"case\":{json}}}", args[3]);
                0
            }
        }
        _ => {
            eprintln!("usage: gv run <ID> quick|thorough | gv replay <ID> <file>");
            3
        }
    };
    std::process::exit(code);
}
