//! C10 — Johnson75 enumerates every elementary circuit exactly once.

use crate::{
    ensure,
    gen::{self, Dg},
    reprs::{self, Unweighted},
    runner::{Build, Leg, LegKind, Obs, Prop, Tier, Verdict},
};
use graaf::{AdjacencyMap, Johnson75};
use proptest::prelude::*;
use serde::{Deserialize, Serialize};
use std::collections::BTreeSet;

#[derive(Clone, Debug, Serialize, Deserialize)]
pub struct Case {
    pub g: Dg,
    #[serde(default)]
    pub family: String,
}

pub struct C10;

impl Prop for C10 {
    type Case = Case;
    const ID: &'static str = "C10";
    const NUM: u64 = 10;
    const RULE: &'static str = "AdjacencyMap digraphs with vertex set 0..order: enum leg = every digraph of order <=4 (quick) / <=5 (thorough, 2^20 digraphs of order 5); random leg = order 1..7 (uniform densities, 15 structured families incl. complete digraphs, cycles, two circuits joined by an arc), plus 'dense core + tails' and subdivisions (a dense core of 3..5 vertices whose arcs are replaced by chains of degree-(1,1) vertices, randomly relabelled, order <= 12). circuits() is called twice on the same instance and must enumerate the same circuits. One case in three also takes clones and clone_from targets (fresh or used, built over a path, a longer circuit or the converse) and requires the same circuits from them. Non-trivial = at least 3 circuits and two circuits that share a vertex other than their own start vertices; distinct = distinct serialised case.";
    const ASSUMPTIONS: &'static [&'static str] = &[
        "the order of the returned list is free (compared as a set after a no-duplicates check)",
        "order is capped at 7: the brute-force reference is exponential (K7 has 2365 circuits)",
    ];

    fn legs(tier: Tier) -> Vec<Leg> {
        let count = (1..=tier.pick(4, 5)).map(gen::count_digraphs).sum();
        vec![
            Leg {
                name: "random",
                kind: LegKind::Random {
                    cases: tier.pick(160000, 1200000),
                },
                workers: 16,
                build: Build::Normal,
            },
            Leg {
                name: "enum",
                kind: LegKind::Enumerated { count },
                workers: 16,
                build: Build::Normal,
            },
            Leg {
                name: "huge",
                kind: LegKind::Random {
                    cases: tier.pick(2, 20),
                },
                workers: 16,
                build: Build::Normal,
            },
        ]
    }

    fn strategy(leg: &str, _tier: Tier) -> BoxedStrategy<Case> {
        if leg == "huge" {
            // large but circuit-poor digraphs (the brute-force reference enumerates simple paths)
            return (gen::huge_dg(), proptest::collection::vec((any::<u16>(), any::<u16>()), 0..5))
                .prop_map(|((g, family), chords)| {
                    let g = gen::truncate_dg(g, 300);
                    let n = g.order;
                    let poor = ["path", "rpath", "circuit", "cycle", "outtree", "intree", "star", "last-rows"].iter().any(|f| family.ends_with(f));
                    let g = if poor {
                        g
                    } else {
                        // a long circuit with a few chords
                        let mut arcs: std::collections::BTreeSet<(usize, usize)> = (0..n).map(|i| (i, (i + 1) % n)).collect();
                        for &c in &chords {
                            arcs.insert(gen::arc_of(c, n));
                        }
                        Dg { order: n, arcs: arcs.into_iter().collect() }
                    };
                    Case { g, family: format!("{family}(circuit-poor)") }
                })
                .boxed();
        }
        prop_oneof![
            4 => gen::digraph_labeled(7).prop_map(|(g, family)| Case { g, family }),
            // subdivisions: a small dense core whose arcs are replaced by chains of
            // vertices with exactly one in-arc and one out-arc, under a random relabelling
            // (few circuits, long ones, many degree-(1,1) start vertices)
            4 => (
                3..=5_usize,
                proptest::collection::vec((any::<u16>(), any::<u16>()), 4..=14),
                proptest::collection::vec(0..3_u8, 14),
                proptest::collection::vec(any::<u16>(), 16),
            )
                .prop_map(|(k, core, subdiv, perm_raw)| {
                    let mut arcs: BTreeSet<(usize, usize)> = BTreeSet::new();
                    for &p in &core {
                        arcs.insert(gen::arc_of(p, k));
                    }
                    let mut n = k;
                    let mut out: Vec<(usize, usize)> = vec![];
                    for (i, &(u, v)) in arcs.iter().enumerate() {
                        let extra = (subdiv[i % subdiv.len()] as usize).min(12_usize.saturating_sub(n));
                        let mut prev = u;
                        for _ in 0..extra {
                            out.push((prev, n));
                            prev = n;
                            n += 1;
                        }
                        out.push((prev, v));
                    }
                    // random relabelling
                    let mut label: Vec<usize> = (0..n).collect();
                    for i in (1..n).rev() {
                        let j = gen::idx(perm_raw[i % perm_raw.len()], i + 1);
                        label.swap(i, j);
                    }
                    let mut relabelled: Vec<(usize, usize)> = out.iter().map(|&(u, v)| (label[u], label[v])).collect();
                    relabelled.sort_unstable();
                    relabelled.dedup();
                    Case { g: Dg { order: n, arcs: relabelled }, family: "subdivision".into() }
                }),
            // dense core on the first k vertices + sparse tails
            1 => (4..=7_usize, 2..=4_usize, proptest::collection::vec((any::<u16>(), any::<u16>()), 0..6), any::<u16>())
                .prop_map(|(n, k, tails, drop)| {
                    let k = k.min(n);
                    let mut arcs = BTreeSet::new();
                    for u in 0..k {
                        for v in 0..k {
                            if u != v {
                                arcs.insert((u, v));
                            }
                        }
                    }
                    if k >= 2 {
                        let e = gen::arc_of((drop, drop.rotate_left(5)), k);
                        arcs.remove(&e);
                    }
                    for &t in &tails {
                        arcs.insert(gen::arc_of(t, n));
                    }
                    Case { g: Dg { order: n, arcs: arcs.into_iter().collect() }, family: "core+tails".into() }
                }),
        ]
        .boxed()
    }

    fn enum_case(_leg: &str, tier: Tier, mut idx: u64) -> Option<Case> {
        for n in 1..=tier.pick(4, 5) {
            if idx < gen::count_digraphs(n) {
                return Some(Case {
                    g: gen::nth_digraph(n, idx),
                    family: "enum".into(),
                });
            }
            idx -= gen::count_digraphs(n);
        }
        None
    }

    fn shrink(c: &Case) -> Vec<Case> {
        gen::shrink_dg(&c.g)
            .into_iter()
            .map(|(g, _)| Case {
                g,
                family: String::new(),
            })
            .collect()
    }

    fn check(c: &Case, obs: &mut Obs) -> Verdict {
        let m = reprs::model_of(&c.g);
        let g = AdjacencyMap::build(&c.g);
        let mut johnson = Johnson75::new(&g);
        let got: Vec<Vec<usize>> = johnson.circuits();
        // asking the same instance again must enumerate the same circuits
        let again: BTreeSet<Vec<usize>> = johnson.circuits().into_iter().collect();
        ensure!(
            again.len() == got.len() && got.iter().all(|c| again.contains(c)),
            "a second circuits() call on the same instance returned {} circuits, the first {}",
            again.len(),
            got.len()
        );
        let want = m.circuits();
        let mut set: BTreeSet<Vec<usize>> = BTreeSet::new();
        for circuit in &got {
            ensure!(
                circuit.len() >= 2,
                "circuits() returned {circuit:?}: a circuit has at least two vertices"
            );
            let distinct: BTreeSet<usize> = circuit.iter().copied().collect();
            ensure!(distinct.len() == circuit.len(), "circuits() returned {circuit:?}: a vertex repeats");
            for i in 0..circuit.len() {
                let (u, v) = (circuit[i], circuit[(i + 1) % circuit.len()]);
                ensure!(m.has(u, v), "circuits() returned {circuit:?}: {u} -> {v} is not an arc");
            }
            ensure!(
                circuit[0] == *circuit.iter().min().unwrap(),
                "circuits() returned {circuit:?}, which does not start at its smallest vertex"
            );
            ensure!(set.insert(circuit.clone()), "circuits() returned {circuit:?} twice");
        }
        ensure!(
            set == want,
            "circuits() returned {} circuits, the digraph has {}; missing {:?}, surplus {:?}",
            set.len(),
            want.len(),
            want.difference(&set).take(3).collect::<Vec<_>>(),
            set.difference(&want).take(3).collect::<Vec<_>>()
        );
        // clones, and clone_from targets that were built over another digraph
        // (fresh or already used), must enumerate this digraph's circuits
        if want.len() <= 60 && (m.size() + m.order()) % 3 == 0 {
            let n = m.order();
            let other = match m.size() % 3 {
                0 => AdjacencyMap::build(&gen::path_dg(n / 2)),
                1 => AdjacencyMap::build(&gen::Dg { order: n + 2, arcs: (0..n + 2).map(|v| (v, (v + 1) % (n + 2))).collect() }),
                _ => AdjacencyMap::build(&gen::Dg { order: n, arcs: { let mut a: Vec<(usize, usize)> = c.g.arcs.iter().map(|&(u, v)| (v, u)).collect(); a.sort_unstable(); a } }),
            };
            for used_source in [false, true] {
                let mut src = Johnson75::new(&g);
                if used_source {
                    let _ = src.circuits();
                }
                let cl: BTreeSet<Vec<usize>> = src.clone().circuits().into_iter().collect();
                ensure!(cl == want, "a clone of a {} instance enumerates {} circuits, the digraph has {}", if used_source { "used" } else { "fresh" }, cl.len(), want.len());
                for used_target in [false, true] {
                    let mut t = Johnson75::new(&other);
                    if used_target {
                        let _ = t.circuits();
                    }
                    t.clone_from(&src);
                    let r: BTreeSet<Vec<usize>> = t.circuits().into_iter().collect();
                    ensure!(
                        r == want,
                        "clone_from onto a {} instance built over another digraph ({:?}) from a {} instance: circuits() returns {} circuits, the digraph has {}; missing {:?}, surplus {:?}",
                        if used_target { "used" } else { "fresh" },
                        other,
                        if used_source { "used" } else { "fresh" },
                        r.len(),
                        want.len(),
                        want.difference(&r).take(3).collect::<Vec<_>>(),
                        r.difference(&want).take(3).collect::<Vec<_>>()
                    );
                }
            }
            obs.label("clone/clone_from across digraphs");
        }
        let shared = want.iter().any(|a| {
            want.iter()
                .any(|b| a != b && a.iter().skip(1).any(|x| b.iter().skip(1).any(|y| x == y)))
        });
        obs.label(match want.len() {
            0 => "circuits=0",
            1..=2 => "circuits=1-2",
            3..=20 => "circuits=3-20",
            21..=200 => "circuits=21-200",
            _ => "circuits>200",
        });
        if shared {
            obs.label("circuits-share-a-non-start-vertex");
        }
        if want.len() >= 3 && shared {
            obs.nontrivial();
        }
        if !c.family.is_empty() {
            obs.label(format!("family={}", c.family));
        }
        Ok(())
    }
}
