//! Adapters: build and observe each representation through graaf's public API
//! only.

use crate::{
    gen::{Dg, MapDg, WDg},
    model::{Model, UModel},
};
use graaf::{
    AddArc, AddArcWeighted, AdjacencyList, AdjacencyListWeighted, AdjacencyMap, AdjacencyMatrix,
    Arcs, ArcsWeighted, EdgeList, Empty, FilterVertices, Order, RemoveArc, Size, Vertices,
};
use std::collections::BTreeSet;

pub trait Unweighted: Sized + Clone + Eq + std::fmt::Debug + Empty + AddArc + Arcs + Vertices + Order + Size {
    const NAME: &'static str;
    fn build(d: &Dg) -> Self {
        let mut g = Self::empty(d.order);
        for &(u, v) in &d.arcs {
            g.add_arc(u, v);
        }
        g
    }
}

impl Unweighted for AdjacencyList {
    const NAME: &'static str = "AdjacencyList";
}
impl Unweighted for AdjacencyMap {
    const NAME: &'static str = "AdjacencyMap";
}
impl Unweighted for AdjacencyMatrix {
    const NAME: &'static str = "AdjacencyMatrix";
}
impl Unweighted for EdgeList {
    const NAME: &'static str = "EdgeList";
}

pub fn build_weighted<W: Clone>(d: &WDg<W>) -> AdjacencyListWeighted<W> {
    let mut g = AdjacencyListWeighted::<W>::empty(d.order);
    for (u, v, w) in &d.arcs {
        g.add_arc_weighted(*u, *v, w.clone());
    }
    g
}

pub fn build_unit_weighted(d: &Dg) -> AdjacencyListWeighted<usize> {
    let mut g = AdjacencyListWeighted::<usize>::empty(d.order);
    for &(u, v) in &d.arcs {
        g.add_arc_weighted(u, v, 1);
    }
    g
}

pub fn model_of(d: &Dg) -> UModel {
    UModel::from_pairs(d.order, &d.arcs)
}

pub fn wmodel_of<W: Clone>(d: &WDg<W>) -> Model<W> {
    Model::from_arcs(d.order, d.arcs.iter().cloned())
}

pub fn map_model_of(d: &MapDg) -> UModel {
    UModel::from_sets(
        d.vertices.iter().copied().collect(),
        d.arcs.iter().map(|&(u, v)| (u, v, ())),
    )
}

/// Builds an AdjacencyMap with an arbitrary vertex-id set using only public
/// calls: `empty(1)`, `add_arc` to admit ids, `add_arc` + `remove_arc` for
/// isolated ids, `filter_vertices` to drop vertex 0 when it is not wanted.
/// The result is verified against the intended (V, A) by the caller through
/// `observe`.
pub fn build_map(d: &MapDg) -> AdjacencyMap {
    let vs: BTreeSet<usize> = d.vertices.iter().copied().collect();
    let mut g = AdjacencyMap::empty(1);
    for &v in &vs {
        if v != 0 {
            g.add_arc(0, v);
            let _ = g.remove_arc(0, v);
        }
    }
    for &(u, v) in &d.arcs {
        g.add_arc(u, v);
    }
    if !vs.contains(&0) {
        g = g.filter_vertices(|v| vs.contains(&v));
    }
    g
}

#[derive(Clone, Debug, PartialEq, Eq)]
pub struct Observation {
    pub order: usize,
    pub size: usize,
    pub vertices: Vec<usize>,
    pub arcs: Vec<(usize, usize)>,
}

pub fn observe<D: Order + Size + Vertices + Arcs>(g: &D) -> Observation {
    Observation {
        order: g.order(),
        size: g.size(),
        vertices: g.vertices().collect(),
        arcs: g.arcs().collect(),
    }
}

pub fn observe_weighted<W: Clone, D: ArcsWeighted<Weight = W>>(g: &D) -> Vec<(usize, usize, W)> {
    g.arcs_weighted().map(|(u, v, w)| (u, v, w.clone())).collect()
}

/// The observation a correct digraph with abstract value `m` must produce.
pub fn expected<W: Clone>(m: &Model<W>) -> Observation {
    Observation {
        order: m.order(),
        size: m.size(),
        vertices: m.vertices(),
        arcs: m.arcs(),
    }
}

/// Checks that `g` is observably exactly `m`; `what` names the operation.
pub fn same<D: Order + Size + Vertices + Arcs, W: Clone>(
    g: &D,
    m: &Model<W>,
    what: &str,
) -> Result<(), String> {
    let o = observe(g);
    let e = expected(m);
    if o != e {
        return Err(format!("{what}: observed {o:?}, abstract digraph is {e:?}"));
    }
    Ok(())
}

#[macro_export]
macro_rules! each_unweighted {
    ($f:ident ( $($args:expr),* )) => {{
        $f::<graaf::AdjacencyList>($($args),*)?;
        $f::<graaf::AdjacencyMap>($($args),*)?;
        $f::<graaf::AdjacencyMatrix>($($args),*)?;
        $f::<graaf::EdgeList>($($args),*)?;
    }};
}


// ---------------------------------------------------------------------------
// A user-side newtype that implements only the REQUIRED methods of graaf's
// traits (by delegation) and inherits every provided method.  A library type
// may override a provided method; a user's type cannot, so this is the only
// place where the provided bodies themselves run.
// ---------------------------------------------------------------------------

#[derive(Clone, Debug, PartialEq, Eq)]
pub struct Wrapped<D>(pub D);

macro_rules! wrap_gen {
    ($tr:ident, $f:ident) => {
        impl<D: graaf::$tr> graaf::$tr for Wrapped<D> {
            fn $f(order: usize) -> Self {
                Wrapped(D::$f(order))
            }
        }
    };
}
wrap_gen!(Empty, empty);
wrap_gen!(Complete, complete);
wrap_gen!(Circuit, circuit);
wrap_gen!(Cycle, cycle);
wrap_gen!(Path, path);
wrap_gen!(Star, star);
wrap_gen!(Wheel, wheel);

impl<D: graaf::Biclique> graaf::Biclique for Wrapped<D> {
    fn biclique(m: usize, n: usize) -> Self {
        Wrapped(D::biclique(m, n))
    }
}
impl<D: Order> Order for Wrapped<D> {
    fn order(&self) -> usize {
        self.0.order()
    }
}
impl<D: Size> Size for Wrapped<D> {
    fn size(&self) -> usize {
        self.0.size()
    }
}
impl<D: Vertices> Vertices for Wrapped<D> {
    fn vertices(&self) -> impl Iterator<Item = usize> {
        self.0.vertices()
    }
}
impl<D: Arcs> Arcs for Wrapped<D> {
    fn arcs(&self) -> impl Iterator<Item = (usize, usize)> {
        self.0.arcs()
    }
}
impl<D: graaf::Indegree> graaf::Indegree for Wrapped<D> {
    fn indegree(&self, v: usize) -> usize {
        self.0.indegree(v)
    }
}
impl<D: graaf::Outdegree> graaf::Outdegree for Wrapped<D> {
    fn outdegree(&self, u: usize) -> usize {
        self.0.outdegree(u)
    }
}


// ---------------------------------------------------------------------------
// A user-defined representation: the traits promise no order for `vertices()`,
// `out_neighbors()` or `arcs()` and no particular `size_hint`, so this one
// enumerates all three scrambled and reports honest but loose hints.
// ---------------------------------------------------------------------------

pub struct Scrambled<'a> {
    m: &'a UModel,
    pub order: Vec<usize>,
    reverse_rows: bool,
    salt: usize,
}

impl<'a> Scrambled<'a> {
    pub fn new(m: &'a UModel, salt: usize) -> Self {
        let mut order = m.vertices();
        match salt % 3 {
            0 => order.reverse(),
            1 => {
                let k = salt % order.len().max(1);
                order.rotate_left(k);
            }
            _ => order.sort_by_key(|&v| (v.wrapping_mul(2_654_435_761).wrapping_add(salt)) % 1013),
        }
        Self { m, order, reverse_rows: salt % 2 == 1, salt }
    }

    /// Another order for rows and arcs, leaving the vertex order alone.
    pub fn arc_order(mut self, arc_salt: usize) -> Self {
        self.reverse_rows = arc_salt % 2 == 1;
        self.salt = self.salt - self.salt % 5 + arc_salt % 5;
        self
    }

    fn row(&self, u: usize) -> Vec<usize> {
        let mut o = self.m.out(u);
        if self.reverse_rows {
            o.reverse();
        }
        o
    }

    /// arcs() in this representation's own order
    pub fn arc_list(&self) -> Vec<(usize, usize)> {
        let mut a: Vec<(usize, usize)> = self.order.iter().flat_map(|&u| self.row(u).into_iter().map(move |v| (u, v))).collect();
        if self.salt % 5 == 4 {
            a.reverse();
        }
        a
    }
}

impl Vertices for Scrambled<'_> {
    fn vertices(&self) -> impl Iterator<Item = usize> {
        let h = crate::gen::hint_pick(self.order.len(), self.salt / 3);
        crate::gen::hinted(self.order.clone(), h)
    }
}

impl graaf::OutNeighbors for Scrambled<'_> {
    fn out_neighbors(&self, u: usize) -> impl Iterator<Item = usize> {
        let o = self.row(u);
        let h = crate::gen::hint_pick(o.len(), self.salt / 3 + u);
        crate::gen::hinted(o, h)
    }
}

impl Arcs for Scrambled<'_> {
    fn arcs(&self) -> impl Iterator<Item = (usize, usize)> {
        let a = self.arc_list();
        let h = crate::gen::hint_pick(a.len(), self.salt / 3 + 1);
        crate::gen::hinted(a, h)
    }
}

impl graaf::HasArc for Scrambled<'_> {
    fn has_arc(&self, u: usize, v: usize) -> bool {
        self.m.has(u, v)
    }
}

impl graaf::Indegree for Scrambled<'_> {
    fn indegree(&self, v: usize) -> usize {
        assert!(self.m.v.contains(&v), "v = {v} isn't in the digraph");
        self.m.indeg(v)
    }
}

impl graaf::Outdegree for Scrambled<'_> {
    fn outdegree(&self, u: usize) -> usize {
        assert!(self.m.v.contains(&u), "u = {u} isn't in the digraph");
        self.m.outdeg(u)
    }
}
