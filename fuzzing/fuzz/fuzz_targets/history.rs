//! libFuzzer target for C01: bytes -> (representation, start digraph,
//! operation history) -> model-based check after every step.
#![no_main]
use gv::runner::Prop;
use libfuzzer_sys::fuzz_target;
use std::sync::Once;

static INIT: Once = Once::new();

fuzz_target!(|data: &[u8]| {
    INIT.call_once(gv::runner::install_quiet_hook);
    let case = gv::props::c01::case_from_bytes(data);
    let mut obs = gv::runner::Obs::default();
    if let Err(msg) = gv::props::c01::C01::check(&case, &mut obs) {
        eprintln!("GV-ORACLE-FAILURE C01: {msg}");
        eprintln!("GV-CASE {}", gv::runner::to_json(&case));
        std::process::abort();
    }
});
