//! C19 — PredecessorTree search follows predecessor links exactly and always
//! terminates.

use crate::{
    ensure,
    gen,
    runner::{guarded, Build, Leg, LegKind, Obs, Prop, Tier, Verdict},
};
use graaf::PredecessorTree;
use proptest::{collection::vec, prelude::*};
use serde::{Deserialize, Serialize};
use std::{cell::Cell, collections::BTreeSet};

#[derive(Clone, Debug, Serialize, Deserialize)]
pub struct Case {
    pub pred: Vec<Option<usize>>,
    pub s: usize,
    /// predicate: vertex in `t`, or (when `t2` is Some) its predecessor in t2,
    /// or (when `none_pred`) its predecessor is None
    pub t: Vec<usize>,
    pub t2: Option<Vec<usize>>,
    pub none_pred: bool,
    /// how the tree is built from `pred` (0 = `From<Vec>`; see `build_tree`)
    #[serde(default)]
    pub build: u8,
    /// re-entrant predicate: `Some((kind, r))` makes the predicate also call
    /// `search(v, r)` on a second tree derived from `pred` (see `second_tree`)
    #[serde(default)]
    pub inner: Option<(u8, usize)>,
}

use crate::probe::build_tree;

/// A second vector for the re-entrant predicate: the same one, a shorter one
/// (entries clipped into range) or a longer one.
fn second_tree(pred: &[Option<usize>], kind: u8) -> Vec<Option<usize>> {
    let n = pred.len();
    match kind % 3 {
        0 => pred.to_vec(),
        1 => {
            let k = (n / 2).max(1);
            pred[..k].iter().map(|p| p.map(|x| x % k)).collect()
        }
        _ => {
            let mut v: Vec<Option<usize>> = pred.iter().rev().copied().collect();
            v.extend([Some(n), Some(0), None]);
            v
        }
    }
}

pub struct C19;

/// Reference: follow the chain from s with a visited set.
fn reference(pred: &[Option<usize>], s: usize, is_target: &dyn Fn(usize, Option<usize>) -> bool) -> Option<Vec<usize>> {
    let mut path = vec![];
    let mut seen = BTreeSet::new();
    let mut cur = s;
    loop {
        if !seen.insert(cur) {
            return None; // revisits a vertex
        }
        path.push(cur);
        if is_target(cur, pred[cur]) {
            return Some(path);
        }
        match pred[cur] {
            None => return None, // chain ends
            Some(p) => cur = p,
        }
    }
}

impl Prop for C19 {
    type Case = Case;
    const ID: &'static str = "C19";
    const NUM: u64 = 19;
    const RULE: &'static str = "predecessor vectors of length 1..12 (each entry None or any in-range vertex: trees, rho-shapes, pure cycles, self-references), every start vertex class, predicates 'vertex in T', 'predecessor is None', 'vertex in T or predecessor in T2', and search(s, t) for every t; the tree is built through one of eight public routes (From<Vec>, new + IndexMut, assigning / pushing / extending / truncating the public `pred` field, clone, clone_from) and one case in four uses a predicate that itself calls search on a second tree (the same, a shorter or a longer one); enum leg: every vector of length <=4 (quick) / <=5 (thorough) x every start x every single target. Termination is decided without a clock: the predicate counts its own invocations and panics after 2*len+4 calls. One case in 5 has a vector of length 13..140 or one of {33,34,64,65,66,128,129,257} with long scrambled chains. Non-trivial = the chain from s enters a cycle, or the first target lies on a tail at distance >=2; distinct = distinct serialised case.";
    const ASSUMPTIONS: &'static [&'static str] = &[
        "entries are in range (out-of-range entries are C13's concern)",
        "predicates are pure functions of (vertex, predecessor); they may call search on another tree",
    ];

    fn legs(tier: Tier) -> Vec<Leg> {
        let count: u64 = (1..=tier.pick(4_u64, 5))
            .map(|l| (l + 1).pow(l as u32) * l * l)
            .sum();
        vec![
            Leg {
                name: "random",
                kind: LegKind::Random {
                    cases: tier.pick(400000, 3000000),
                },
                workers: 16,
                build: Build::Normal,
            },
            Leg {
                name: "enum",
                kind: LegKind::Enumerated { count },
                workers: 8,
                build: Build::Normal,
            },
        ]
    }

    fn strategy(_leg: &str, _tier: Tier) -> BoxedStrategy<Case> {
        (
            prop_oneof![12 => 1..=12_usize, 2 => 13..=140_usize, 1 => proptest::sample::select(vec![33_usize, 34, 64, 65, 66, 128, 129, 257])],
            vec((any::<u16>(), any::<u8>()), 257),
            any::<u8>(),
            any::<u16>(),
            any::<u64>(),
            any::<u8>(),
            any::<u64>(),
            any::<u8>(),
            (any::<u8>(), any::<u8>(), any::<u16>()),
        )
            .prop_map(|(n, raw, shape, sraw, tbits, tclass, t2bits, pclass, (build, ikind, iraw))| {
                let pred: Vec<Option<usize>> = (0..n)
                    .map(|v| {
                        let (r, k) = raw[v];
                        match shape % 5 {
                            // tree-like: predecessor smaller than v, roots None
                            // (rarely a root when the vector is long: long chains)
                            0 => {
                                if v == 0 || (k % 5 == 0 && (n <= 12 || k % 64 == 0)) {
                                    None
                                } else {
                                    Some(gen::idx(r, v))
                                }
                            }
                            // pure cycle through all vertices
                            1 => Some((v + 1) % n),
                            // rho: path into a cycle
                            2 => Some(if v == 0 { gen::idx(r, n) } else { v - 1 }),
                            // long vectors: a scrambled descending chain (visits ids far apart)
                            3 if n > 12 => {
                                if v == 0 {
                                    None
                                } else {
                                    Some((v * 37 + 11) % v)
                                }
                            }
                            // arbitrary, self-references included
                            _ => {
                                if k % 6 == 0 {
                                    None
                                } else {
                                    Some(gen::idx(r, n))
                                }
                            }
                        }
                    })
                    .collect();
                let s = if shape % 5 == 2 && sraw % 2 == 0 { n - 1 } else { gen::idx(sraw, n) };
                let t = gen::subset_from(tbits, tclass, sraw.rotate_left(7), n);
                let (t2, none_pred) = match pclass % 4 {
                    0 => (Some(gen::subset_from(t2bits, 3, 0, n)), false),
                    1 => (None, true),
                    _ => (None, false),
                };
                // one case in four has a predicate that searches a second tree
                let inner = (ikind % 4 == 0).then(|| {
                    let k = ikind / 4;
                    (k, gen::idx(iraw, second_tree(&pred, k).len()))
                });
                Case { pred, s, t, t2, none_pred, build, inner }
            })
            .boxed()
    }

    fn enum_case(_leg: &str, tier: Tier, mut idx: u64) -> Option<Case> {
        for l in 1..=tier.pick(4_u64, 5) {
            let vectors = (l + 1).pow(l as u32);
            let block = vectors * l * l;
            if idx < block {
                let t = (idx % l) as usize;
                let s = ((idx / l) % l) as usize;
                let mut code = idx / (l * l);
                let pred = (0..l)
                    .map(|_| {
                        let d = code % (l + 1);
                        code /= l + 1;
                        if d == 0 {
                            None
                        } else {
                            Some((d - 1) as usize)
                        }
                    })
                    .collect();
                return Some(Case {
                    pred,
                    s,
                    t: vec![t],
                    t2: None,
                    none_pred: false,
                    build: (idx % 8) as u8,
                    inner: None,
                });
            }
            idx -= block;
        }
        None
    }

    fn check(c: &Case, obs: &mut Obs) -> Verdict {
        let n = c.pred.len();
        ensure!(c.s < n && c.pred.iter().flatten().all(|&p| p < n), "harness: out-of-range case");
        let tree = build_tree(&c.pred, c.build);
        ensure!(
            tree.pred == c.pred,
            "building the tree through route {} gives {:?} for the vector {:?}",
            c.build % 8,
            tree.pred,
            c.pred
        );
        let second: Option<(Vec<Option<usize>>, PredecessorTree, usize)> =
            c.inner.map(|(k, r)| (second_tree(&c.pred, k), build_tree(&second_tree(&c.pred, k), c.build / 8), r));
        let tset: BTreeSet<usize> = c.t.iter().copied().collect();
        let t2set: Option<BTreeSet<usize>> = c.t2.as_ref().map(|t| t.iter().copied().collect());
        let pure = |v: usize, p: Option<usize>| {
            tset.contains(&v)
                || (c.none_pred && p.is_none())
                || t2set.as_ref().is_some_and(|t2| p.is_some_and(|p| t2.contains(&p)))
                || second
                    .as_ref()
                    .is_some_and(|(b, _, r)| v < b.len() && reference(b, v, &|x, _| x == *r).is_some())
        };
        // what the library is given: the same predicate, except that its last
        // clause asks the library itself (a search inside a search)
        let asked = |v: usize, p: Option<usize>| {
            tset.contains(&v)
                || (c.none_pred && p.is_none())
                || t2set.as_ref().is_some_and(|t2| p.is_some_and(|p| t2.contains(&p)))
                || second
                    .as_ref()
                    .is_some_and(|(b, bt, r)| v < b.len() && bt.search(v, *r).is_some())
        };
        let limit = 2 * n + 4;
        let calls = Cell::new(0_usize);
        let got = guarded(|| {
            tree.search_by(c.s, |&v, &p| {
                calls.set(calls.get() + 1);
                assert!(calls.get() <= limit, "predicate budget exhausted: search_by does not terminate");
                asked(v, p)
            })
        });
        let got = match got {
            Ok(g) => g,
            Err(m) => {
                return Err(format!(
                    "search_by({}, ..) on {:?} panicked or ran past {limit} predicate calls: {m}",
                    c.s, c.pred
                ))
            }
        };
        let want = reference(&c.pred, c.s, &pure);
        ensure!(
            got == want,
            "search_by({}, pred) on {:?} with targets {:?}/{:?}/none_pred={}/inner search {:?} returned {got:?}; following predecessor links gives {want:?}",
            c.s,
            c.pred,
            c.t,
            c.t2,
            c.none_pred,
            c.inner
        );
        if let Some(p) = &got {
            ensure!(p[0] == c.s, "path {p:?} does not start at {}", c.s);
            for w in p.windows(2) {
                ensure!(c.pred[w[0]] == Some(w[1]), "path {p:?}: {} is not the predecessor of {}", w[1], w[0]);
            }
        }
        // search(s, t) == search_by(s, vertex == t) for every t
        for t in 0..n {
            let a = guarded(|| tree.search(c.s, t)).map_err(|m| format!("search({}, {t}) panicked: {m}", c.s))?;
            let b = reference(&c.pred, c.s, &|v, _| v == t);
            ensure!(
                a == b,
                "search({}, {t}) on {:?} returned {a:?}; following predecessor links gives {b:?}",
                c.s,
                c.pred
            );
        }
        // classification
        let mut seen = BTreeSet::new();
        let mut cur = Some(c.s);
        let mut cyc = false;
        while let Some(v) = cur {
            if !seen.insert(v) {
                cyc = true;
                break;
            }
            cur = c.pred[v];
        }
        let far = want.as_ref().is_some_and(|p| p.len() >= 3);
        if cyc {
            obs.label("chain-enters-cycle");
        }
        if far {
            obs.label("target-at-distance>=2");
        }
        if c.pred[c.s] == Some(c.s) {
            obs.label("self-reference-at-start");
        }
        obs.label(if want.is_some() { "found" } else { "not-found" });
        obs.label(format!("build-route={}", c.build % 8));
        if c.inner.is_some() {
            obs.label("predicate-searches-a-second-tree");
        }
        if cyc || far {
            obs.nontrivial();
        }
        Ok(())
    }
}
