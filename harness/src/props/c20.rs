//! C20 — equality, ordering, hashing and cloning respect the abstract digraph.

use crate::{
    ensure,
    gen,
    model::Model,
    props::c01::{compare, expected, Case as HCase, Op, Start, Subject, M, REPRS},
    runner::{guarded, Build, Leg, LegKind, Obs, Prop, Tier, Verdict},
};
use graaf::{
    AdjacencyList, AdjacencyListWeighted, AdjacencyMap, AdjacencyMatrix, Complete, EdgeList,
    IsComplete,
};
use proptest::{collection::vec, prelude::*};
use serde::{Deserialize, Serialize};
use std::{
    cmp::Ordering,
    collections::{hash_map::DefaultHasher, BTreeSet},
    hash::{Hash, Hasher},
};

#[derive(Clone, Debug, Serialize, Deserialize)]
pub struct Case {
    pub repr: u8,
    /// the abstract digraph both histories must arrive at
    pub order: usize,
    pub arcs: Vec<(usize, usize, i64)>,
    /// how history A / B reach it (see `realise`)
    pub style_a: u8,
    pub style_b: u8,
    pub noise: Vec<(u16, u16)>,
    /// difference applied to B's target (0 none = same digraph, 1 one arc,
    /// 2 one weight, 3 one extra isolated vertex)
    pub diff: u8,
    pub diff_pick: (u16, u16),
    /// mutation applied to one side after cloning
    pub mutation: Op,
    pub mutate_clone: bool,
}

pub struct C20;

fn hash_of<T: Hash>(t: &T) -> u64 {
    let mut h = DefaultHasher::new();
    t.hash(&mut h);
    h.finish()
}

/// Builds the target (order, arcs) along a history of the given style.
/// Styles: 0 direct adds ascending; 1 adds descending; 2 superset then
/// removals; 3 every arc added, removed, added again (matrix: toggled 3x);
/// 4 start from the complete digraph and remove the complement;
/// 5 stale weights first (weighted) / duplicate adds.
fn realise<S: Subject>(order: usize, arcs: &[(usize, usize, i64)], style: u8, noise: &[(u16, u16)]) -> (S, usize) {
    let want: BTreeSet<(usize, usize)> = arcs.iter().map(|a| (a.0, a.1)).collect();
    let mut steps = 0;
    let (mut g, _) = S::start(&Start {
        via: if style % 7 == 4 && !S::WEIGHTED { 3 } else { 0 },
        order,
        arcs: vec![],
        gen_kind: 1, // complete
        seed: 0,
    });
    match style % 7 {
        6 => {
            // every add is followed by calls that must be rejected (and caught by
            // the caller): a rejected call must leave no trace in ==, hash or cmp
            for (i, a) in arcs.iter().enumerate() {
                g.add(a.0, a.1, a.2);
                let x = if i % 2 == 0 { a.0 } else { order + 4 + i };
                let _ = guarded(|| g.add(x, x, 1));
                if S::FIXED {
                    let _ = guarded(|| g.add(a.0, order + i % 3, 1));
                    let _ = guarded(|| g.add(order + 1 + i % 2, a.1, 1));
                }
                steps += 1;
            }
            if arcs.is_empty() {
                let _ = guarded(|| g.add(order + 2, order + 2, 1));
                let _ = guarded(|| g.add(0, 0, 1));
            }
        }
        1 => {
            for a in arcs.iter().rev() {
                g.add(a.0, a.1, a.2);
                steps += 1;
            }
        }
        2 => {
            let mut extra = vec![];
            if order >= 2 {
                for &p in noise {
                    let e = gen::arc_of(p, order);
                    if !want.contains(&e) {
                        extra.push(e);
                    }
                }
            }
            for &(u, v) in &extra {
                g.add(u, v, 99);
                steps += 1;
            }
            for a in arcs {
                g.add(a.0, a.1, a.2);
                steps += 1;
            }
            for &(u, v) in &extra {
                let _ = g.remove(u, v);
                steps += 1;
            }
        }
        3 => {
            for a in arcs {
                if S::TOGGLE {
                    g.toggle(a.0, a.1);
                    g.toggle(a.0, a.1);
                    g.toggle(a.0, a.1);
                } else {
                    g.add(a.0, a.1, 5);
                    let _ = g.remove(a.0, a.1);
                    g.add(a.0, a.1, a.2);
                }
                steps += 3;
            }
        }
        4 if !S::WEIGHTED => {
            // started from complete(order): remove everything not wanted
            for u in 0..order {
                for v in 0..order {
                    if u != v && !want.contains(&(u, v)) {
                        let _ = g.remove(u, v);
                        steps += 1;
                    }
                }
            }
        }
        5 => {
            for a in arcs {
                g.add(a.0, a.1, a.2.wrapping_add(1));
                g.add(a.0, a.1, a.2);
                steps += 2;
            }
        }
        _ => {
            for a in arcs {
                g.add(a.0, a.1, a.2);
                steps += 1;
            }
        }
    }
    (g, steps)
}

fn model_of<S: Subject>(order: usize, arcs: &[(usize, usize, i64)], name: &str) -> M {
    let mut m: M = Model::contiguous(order);
    for &(u, v, w) in arcs {
        let wt = if !S::WEIGHTED {
            1
        } else if name.contains("usize") {
            (w as u64) as i128
        } else {
            w as i128
        };
        m.a.insert((u, v), wt);
    }
    m
}

fn run<S: Subject + Hash + Ord>(c: &Case, name: &str, obs: &mut Obs) -> Verdict {
    let n = c.order;
    let arcs_a = c.arcs.clone();
    // B's target
    let mut arcs_b = c.arcs.clone();
    let mut order_b = n;
    let mut differs = false;
    match c.diff % 4 {
        1 if n >= 2 => {
            let e = gen::arc_of(c.diff_pick, n);
            if let Some(i) = arcs_b.iter().position(|a| (a.0, a.1) == e) {
                arcs_b.remove(i);
            } else {
                arcs_b.push((e.0, e.1, 3));
                arcs_b.sort();
            }
            differs = true;
        }
        2 if S::WEIGHTED && !arcs_b.is_empty() => {
            let i = gen::idx(c.diff_pick.0, arcs_b.len());
            arcs_b[i].2 = arcs_b[i].2.wrapping_add(1 + i64::from(c.diff_pick.1 % 3));
            differs = true;
        }
        3 => {
            order_b = n + 1;
            differs = true;
        }
        _ => {}
    }
    let (a, steps_a) = guarded(|| realise::<S>(n, &arcs_a, c.style_a, &c.noise))
        .map_err(|p| format!("{name}: history A panicked: {p}"))?;
    let (b, steps_b) = guarded(|| realise::<S>(order_b, &arcs_b, c.style_b, &c.noise))
        .map_err(|p| format!("{name}: history B panicked: {p}"))?;
    let ma = model_of::<S>(n, &arcs_a, name);
    let mb = model_of::<S>(order_b, &arcs_b, name);
    compare(&a, &ma, true, &format!("{name} history A (style {})", c.style_a % 7))?;
    compare(&b, &mb, true, &format!("{name} history B (style {})", c.style_b % 7))?;
    let same_abstract = expected(&ma) == expected(&mb);
    ensure!(same_abstract != differs, "harness: diff bookkeeping");
    if same_abstract {
        ensure!(a == b, "{name}: same abstract digraph built along two histories compares unequal:\n   A = {a:?}\n   B = {b:?}");
        ensure!(!(a != b), "{name}: `!=` is true for equal digraphs");
        ensure!(a.cmp(&b) == Ordering::Equal, "{name}: equal digraphs compare {:?}", a.cmp(&b));
        ensure!(a.partial_cmp(&b) == Some(Ordering::Equal), "{name}: partial_cmp of equal digraphs is {:?}", a.partial_cmp(&b));
        ensure!(hash_of(&a) == hash_of(&b), "{name}: equal digraphs hash differently");
    } else {
        ensure!(a != b, "{name}: different abstract digraphs compare equal:\n   A = {a:?}\n   B = {b:?}");
        ensure!(a.cmp(&b) != Ordering::Equal, "{name}: different digraphs compare Ordering::Equal");
        ensure!(
            a.cmp(&b) == b.cmp(&a).reverse(),
            "{name}: a.cmp(b) = {:?} but b.cmp(a) = {:?}",
            a.cmp(&b),
            b.cmp(&a)
        );
    }
    // clone_from onto a digraph of another shape must give an equal digraph
    {
        let mut x = b.clone();
        x.clone_from(&a);
        ensure!(x == a && hash_of(&x) == hash_of(&a), "{name}: b.clone_from(&a) is not equal to a:\n   a = {a:?}\n   x = {x:?}");
        compare(&x, &ma, true, &format!("{name}: result of clone_from"))?;
        // ... also from a digraph of a different order (every order 1..=n+2 in turn for small n)
        let limit = if n <= 12 { n + 2 } else { 2 };
        for other_order in 1..=limit {
            let o_order = if n <= 12 { other_order } else { n + other_order };
            let (mut y, _) = realise::<S>(o_order, &[], 0, &c.noise);
            if o_order >= 2 {
                y.add(0, 1, 1);
            }
            y.clone_from(&a);
            ensure!(y == a, "{name}: a digraph of order {o_order} after clone_from(&a) is not equal to a:\n   a = {a:?}\n   y = {y:?}");
            compare(&y, &ma, false, &format!("{name}: clone_from onto a digraph of order {o_order}"))?;
        }
    }
    // complement of the complement, union with the empty digraph: same abstract digraph
    // (quadratic in the order: skipped on the huge leg)
    if let Some(cc) = (n <= 200).then(|| a.complemented().and_then(|x| x.complemented())).flatten() {
        ensure!(cc == a && hash_of(&cc) == hash_of(&a) && cc.cmp(&a) == Ordering::Equal, "{name}: complement().complement() is not equal to the original:\n   a  = {a:?}\n   cc = {cc:?}");
        let comp = a.complemented().unwrap();
        let mut mc: M = Model::contiguous(n);
        mc.v = ma.v.clone();
        for &u in &ma.v {
            for &v in &ma.v {
                if u != v && !ma.has(u, v) {
                    mc.a.insert((u, v), 1);
                }
            }
        }
        compare(&comp, &mc, true, &format!("{name}: complement()"))?;
        // a complement built by a history must equal the computed complement
        let arcs_c: Vec<(usize, usize, i64)> = mc.a.keys().map(|&(u, v)| (u, v, 1)).collect();
        if ma.is_contiguous() {
            let (hist, _) = realise::<S>(n, &arcs_c, c.style_b, &c.noise);
            ensure!(hist == comp && hash_of(&hist) == hash_of(&comp), "{name}: complement() differs from the same digraph built by a history:\n   complement = {comp:?}\n   history    = {hist:?}");
        }
    }
    if ma.is_contiguous() {
        let (e, _) = realise::<S>(n, &[], 0, &c.noise);
        if let Some(u) = a.united(&e) {
            ensure!(u == a && hash_of(&u) == hash_of(&a), "{name}: union with the empty digraph is not equal to the original");
        }
    }
    // clone: equal and independent
    let mut orig = a.clone();
    let mut copy = orig.clone();
    ensure!(copy == orig && hash_of(&copy) == hash_of(&orig), "{name}: a clone is not equal to its original");
    let (mutated, untouched, mm_is_copy) = if c.mutate_clone {
        (&mut copy, &orig, true)
    } else {
        (&mut orig, &copy, false)
    };
    let mut mm = ma.clone();
    let applied = match c.mutation {
        Op::Add(u, v, w) if u != v && u < n && v < n => {
            mutated.add(u, v, w);
            let wt = if !S::WEIGHTED { 1 } else if name.contains("usize") { (w as u64) as i128 } else { w as i128 };
            mm.a.insert((u, v), wt);
            true
        }
        Op::Remove(u, v) => {
            let _ = mutated.remove(u, v);
            mm.a.remove(&(u, v));
            true
        }
        Op::Toggle(u, v) if S::TOGGLE && u != v && u < n && v < n => {
            mutated.toggle(u, v);
            if mm.a.remove(&(u, v)).is_none() {
                mm.a.insert((u, v), 1);
            }
            true
        }
        _ => false,
    };
    compare(untouched, &ma, true, &format!("{name}: the {} after mutating the other side", if mm_is_copy { "original" } else { "clone" }))?;
    if applied {
        let mutated_ref: &S = if c.mutate_clone { &copy } else { &orig };
        compare(mutated_ref, &mm, true, &format!("{name}: the mutated side"))?;
        let changed = expected(&mm) != expected(&ma);
        ensure!(
            (copy == orig) == !changed,
            "{name}: after mutating one side, clone == original is {} although the abstract digraphs are {}",
            copy == orig,
            if changed { "different" } else { "the same" }
        );
        obs.label(if changed { "mutation-changes-digraph" } else { "mutation-is-noop" });
    }
    obs.label(format!("styles={}/{}", c.style_a % 7, c.style_b % 7));
    obs.label(if same_abstract { "same-abstract-digraph" } else { "different-abstract-digraph" });
    if steps_a.abs_diff(steps_b) >= 3 {
        obs.label("history-lengths-differ>=3");
    }
    let removal = [c.style_a % 7, c.style_b % 7].iter().any(|s| matches!(s, 2 | 3 | 4));
    if removal {
        obs.label("history-with-removal");
    }
    if steps_a.abs_diff(steps_b) >= 3 && removal {
        obs.nontrivial();
    }
    Ok(())
}

/// AdjacencyMap digraphs whose vertex sets differ only in isolated ids, or
/// have gaps: equality, ordering and hashing must see the vertex set, and
/// `clone_from` must replace it.
fn map_vertex_sets(c: &Case) -> Verdict {
    use crate::gen::MapDg;
    use crate::reprs::{build_map, map_model_of, same};
    let n = c.order;
    let arcs: Vec<(usize, usize)> = c.arcs.iter().map(|a| (a.0, a.1)).collect();
    let base: Vec<usize> = (0..n).collect();
    let with = |extra: &[usize], drop: Option<usize>| {
        let mut vs = base.clone();
        vs.extend_from_slice(extra);
        if let Some(k) = drop {
            vs.retain(|&v| v != k);
        }
        if vs.is_empty() {
            vs.push(n + 7);
        }
        MapDg {
            arcs: arcs.iter().copied().filter(|(u, v)| vs.contains(u) && vs.contains(v)).collect(),
            vertices: vs,
        }
    };
    let x = n + 1 + (c.diff_pick.0 as usize % 5);
    let y = x + 1 + (c.diff_pick.1 as usize % 3);
    let k = gen::idx(c.diff_pick.0, n);
    let specs = [with(&[x], None), with(&[y], None), with(&[x, y], None), with(&[], Some(k)), with(&[x], Some(k))];
    let maps: Vec<AdjacencyMap> = specs.iter().map(build_map).collect();
    for (s, m) in specs.iter().zip(&maps) {
        same(m, &map_model_of(s), "building a non-contiguous AdjacencyMap through the public API")?;
    }
    for i in 0..maps.len() {
        for j in 0..maps.len() {
            let same_abstract = map_model_of(&specs[i]) == map_model_of(&specs[j]);
            ensure!(
                (maps[i] == maps[j]) == same_abstract,
                "AdjacencyMap: digraphs with vertex sets {:?} and {:?} (same arcs) compare == {}",
                specs[i].vertices,
                specs[j].vertices,
                maps[i] == maps[j]
            );
            ensure!(
                (maps[i].cmp(&maps[j]) == Ordering::Equal) == same_abstract,
                "AdjacencyMap: digraphs with vertex sets {:?} and {:?} compare {:?}",
                specs[i].vertices,
                specs[j].vertices,
                maps[i].cmp(&maps[j])
            );
            if same_abstract {
                ensure!(hash_of(&maps[i]) == hash_of(&maps[j]), "AdjacencyMap: equal digraphs hash differently");
            }
            // clone_from across different vertex sets (gaps, extra ids)
            let mut t = maps[j].clone();
            t.clone_from(&maps[i]);
            ensure!(
                t == maps[i] && hash_of(&t) == hash_of(&maps[i]),
                "AdjacencyMap: a digraph on {:?} after clone_from(a digraph on {:?}) is not equal to its source: {t:?}",
                specs[j].vertices,
                specs[i].vertices
            );
            same(&t, &map_model_of(&specs[i]), "AdjacencyMap after clone_from")?;
        }
    }
    Ok(())
}

/// is_complete of AdjacencyMatrix / EdgeList is implemented as
/// `== complete(order)`: it must agree with the definition on digraphs that
/// *became* complete through a removal history.
fn complete_via_history(n: usize) -> Verdict {
    if n < 2 {
        return Ok(());
    }
    let mut full = vec![];
    for u in 0..n {
        for v in 0..n {
            if u != v {
                full.push((u, v, 1_i64));
            }
        }
    }
    let noise: Vec<(u16, u16)> = vec![];
    for style in [1_u8, 3, 5] {
        let (x, _) = realise::<AdjacencyMatrix>(n, &full, style, &noise);
        ensure!(x.is_complete(), "AdjacencyMatrix built complete along history style {style} (order {n}) is not is_complete()");
        ensure!(x == AdjacencyMatrix::complete(n), "AdjacencyMatrix complete by history != complete({n})");
        let (e, _) = realise::<EdgeList>(n, &full, style, &noise);
        ensure!(e.is_complete(), "EdgeList built complete along history style {style} (order {n}) is not is_complete()");
        let mut y = x.clone();
        let _ = graaf::RemoveArc::remove_arc(&mut y, 0, 1);
        ensure!(!y.is_complete(), "AdjacencyMatrix complete minus one arc reports is_complete()");
        graaf::AddArc::add_arc(&mut y, 0, 1);
        ensure!(y.is_complete() && y == x, "AdjacencyMatrix: remove then re-add does not restore the complete digraph");
    }
    Ok(())
}

impl Prop for C20 {
    type Case = Case;
    const ID: &'static str = "C20";
    const NUM: u64 = 20;
    const RULE: &'static str = "an abstract digraph G (order 1..20 quick / 1..64 thorough, orders 8, 9, 11, 16 over-represented) and a near-identical G' (equal, one arc different, one weight different, or one extra isolated vertex), each built in one of the six representations along one of six history styles (ascending adds, descending adds, superset then removals, add-remove-add / triple toggle, complete() minus the complement, stale weight then real weight); then a clone and a generated mutation of either side. Orders 65 and 66 are included. For AdjacencyMap, five variants of each case (an extra isolated id, another one, both, a dropped vertex, both changes) are compared pairwise with ==, cmp and hash and clone_from-ed onto each other. Non-trivial = the two histories differ in length by >=3 and one of them contains removals; distinct = distinct serialised case.";
    const ASSUMPTIONS: &'static [&'static str] = &["DefaultHasher is the hash observer"];

    fn legs(tier: Tier) -> Vec<Leg> {
        vec![
            Leg {
                name: "random",
                kind: LegKind::Random {
                    cases: tier.pick(15000, 120000),
                },
                workers: 16,
                build: Build::Normal,
            },
            Leg {
                name: "huge",
                kind: LegKind::Random {
                    cases: tier.pick(4, 40),
                },
                workers: 16,
                build: Build::Normal,
            },
        ]
    }

    fn strategy(leg: &str, tier: Tier) -> BoxedStrategy<Case> {
        if leg == "huge" {
            // clone / == / hash on digraphs of 200..3100 vertices (two histories, no noise)
            return (0..6_u8, gen::huge_dg(), prop_oneof![Just(0_u8), Just(1), Just(5)], prop_oneof![Just(0_u8), Just(1), Just(3)], any::<bool>(), any::<u16>(), any::<u16>())
                .prop_map(|(repr, (g, _), sa, sb, mutate_clone, mu, mv)| {
                    let n = g.order;
                    let arcs: Vec<(usize, usize, i64)> = g.arcs.iter().map(|&(u, v)| (u, v, ((u + v) % 9) as i64)).collect();
                    let (u, v) = gen::arc_of((mu, mv), n);
                    Case {
                        repr,
                        order: n,
                        arcs,
                        style_a: sa,
                        style_b: sb,
                        noise: vec![],
                        diff: 0,
                        diff_pick: (0, 0),
                        mutation: Op::Add(n - 1 - (u % 3), v, 1),
                        mutate_clone,
                    }
                })
                .boxed();
        }
        let max = tier.pick(20, 64);
        (
            0..6_u8,
            prop_oneof![3 => prop::sample::select(vec![8_usize, 9, 11, 16, 8, 9, 11, 16, 65, 66]), 7 => 1_usize..=max],
            vec(((any::<u16>(), any::<u16>()), -9..9_i64), 0..=40),
            (0..7_u8, 0..7_u8),
            vec((any::<u16>(), any::<u16>()), 0..=8),
            (any::<u8>(), (any::<u16>(), any::<u16>())),
            (0..3_u8, any::<u16>(), any::<u16>(), -9..9_i64, any::<bool>()),
        )
            .prop_map(|(repr, n, raw, (sa, sb), noise, (diff, diff_pick), (mk, mu, mv, mw, mutate_clone))| {
                let mut seen = BTreeSet::new();
                let mut arcs = vec![];
                if n >= 2 {
                    for &(p, w) in &raw {
                        let e = gen::arc_of(p, n);
                        if seen.insert(e) {
                            arcs.push((e.0, e.1, w));
                        }
                    }
                }
                arcs.sort();
                let (u, v) = if n >= 2 { gen::arc_of((mu, mv), n) } else { (0, 0) };
                let mutation = match mk {
                    0 => Op::Add(u, v, mw),
                    1 => Op::Remove(u, v),
                    _ => Op::Toggle(u, v),
                };
                Case {
                    repr,
                    order: n,
                    arcs,
                    style_a: sa,
                    style_b: sb,
                    noise,
                    diff: if diff % 2 == 0 { 0 } else { 1 + diff % 3 },
                    diff_pick,
                    mutation,
                    mutate_clone,
                }
            })
            .boxed()
    }

    fn shrink(c: &Case) -> Vec<Case> {
        let mut out = vec![];
        for i in 0..c.arcs.len() {
            let mut arcs = c.arcs.clone();
            arcs.remove(i);
            out.push(Case { arcs, ..c.clone() });
        }
        for i in 0..c.noise.len() {
            let mut noise = c.noise.clone();
            noise.remove(i);
            out.push(Case { noise, ..c.clone() });
        }
        out
    }

    fn check(c: &Case, obs: &mut Obs) -> Verdict {
        let name = REPRS[c.repr as usize % 6];
        obs.label(format!("repr={name}"));
        match c.repr % 6 {
            0 => run::<AdjacencyList>(c, name, obs)?,
            1 => run::<AdjacencyMap>(c, name, obs)?,
            2 => run::<AdjacencyMatrix>(c, name, obs)?,
            3 => run::<EdgeList>(c, name, obs)?,
            4 => run::<AdjacencyListWeighted<usize>>(c, name, obs)?,
            _ => run::<AdjacencyListWeighted<isize>>(c, name, obs)?,
        }
        if c.repr % 6 == 2 || c.repr % 6 == 3 {
            complete_via_history(c.order.min(12))?;
        }
        if c.repr % 6 == 1 && c.order <= 64 {
            map_vertex_sets(c)?;
        }
        let _ = HCase {
            repr: 0,
            start: Start { via: 0, order: 1, arcs: vec![], gen_kind: 0, seed: 0 },
            ops: vec![],
        };
        Ok(())
    }
}
