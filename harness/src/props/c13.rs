//! C13 — the safe API is memory-safe and leak-free for every argument.

use crate::{
    ensure, gen,
    probe::{self, AnyD, Base, Call, Program, BIG_ORDERS},
    runner::{guarded, Build, Leg, LegKind, Obs, Prop, Tier, Verdict},
    sys,
};
use proptest::{collection::vec, prelude::*};
use serde::{Deserialize, Serialize};

#[derive(Clone, Debug, Serialize, Deserialize)]
pub struct Case {
    pub program: Program,
    /// also run the leak meter on every call that returns
    #[serde(default)]
    pub leak: bool,
    /// number of CPUs the program runs with (0 = leave the affinity alone);
    /// the threaded operations size their chunks from it
    #[serde(default)]
    pub cpus: usize,
}

pub struct C13;

// ---------------------------------------------------------------------------
// systematic sweep
// ---------------------------------------------------------------------------

pub fn bases() -> Vec<Base> {
    let mut out = vec![];
    for repr in 0..6_u8 {
        out.push(Base { repr, order: 1, arcs: vec![], extra_ids: vec![], drop_ids: vec![] });
        out.push(Base {
            repr,
            order: 4,
            arcs: vec![(0, 1, 3), (1, 2, 1), (2, 0, 4), (2, 3, 1)],
            extra_ids: vec![],
            drop_ids: vec![],
        });
        out.push(Base {
            repr,
            order: 3,
            arcs: vec![(0, 1, 2), (0, 2, 2), (1, 0, 2), (1, 2, 2), (2, 0, 2), (2, 1, 2)],
            extra_ids: vec![],
            drop_ids: vec![],
        });
    }
    // non-contiguous AdjacencyMap digraphs
    out.push(Base { repr: 1, order: 1, arcs: vec![(0, 5, 1)], extra_ids: vec![5], drop_ids: vec![] });
    out.push(Base {
        repr: 1,
        order: 3,
        arcs: vec![(2, 7, 1), (7, 1000, 1), (1000, 2, 1)],
        extra_ids: vec![7, 1000],
        drop_ids: vec![0, 1],
    });
    out.push(Base { repr: 1, order: 1, arcs: vec![(0, 500, 1), (500, 0, 1)], extra_ids: vec![500], drop_ids: vec![] });
    out
}

/// The vertex ids of a base digraph (what the property calls V).
fn base_vertices(b: &Base) -> Vec<usize> {
    let mut v: Vec<usize> = (0..b.order.max(1)).collect();
    if b.repr % 6 == 1 {
        v.extend(b.extra_ids.iter().copied());
        for &(x, y, _) in &b.arcs {
            v.push(x);
            v.push(y);
        }
        v.retain(|x| !b.drop_ids.contains(x));
    }
    v.sort_unstable();
    v.dedup();
    v
}

/// Vertex-argument classes: in range (two of them), order, order+1, far, MAX.
fn arg_classes(b: &Base) -> Vec<usize> {
    let vs = base_vertices(b);
    let n = b.order.max(1);
    let mut a = vec![vs[0], *vs.last().unwrap(), n, n + 1, 1000, usize::MAX];
    if b.repr % 6 == 1 {
        a.push(vs.last().unwrap() + 1);
    }
    a.dedup();
    a
}

pub fn base_calls(b: &Base) -> Vec<Call> {
    let a = arg_classes(b);
    let n = b.order.max(1);
    let mut c = vec![];
    for &u in &a {
        for &v in &a {
            c.push(Call::AddArc(u, v));
            c.push(Call::AddArcWeighted(u, v, 5));
            c.push(Call::RemoveArc(u, v));
            c.push(Call::Toggle(u, v));
            for id in 0..3 {
                c.push(Call::Q2(id, u, v));
            }
            c.push(Call::HasWalk(vec![u, v]));
        }
        for id in 0..11 {
            c.push(Call::Q1(id, u));
        }
        c.push(Call::HasWalk(vec![u]));
        c.push(Call::Bfm(u));
    }
    c.push(Call::HasWalk(vec![]));
    c.push(Call::HasWalk(vec![0, 1, 2, n, 0]));
    c.push(Call::HasWalk(vec![0, 1, 2, 0, 1, 2, 3]));
    for id in 0..17 {
        c.push(Call::Q0(id));
    }
    for id in 0..8 {
        c.push(Call::Pred(id));
    }
    for w in 0..3 {
        for o in 0..4 {
            c.push(Call::Rel(w, o));
        }
    }
    for id in 0..5 {
        c.push(Call::Op(id));
    }
    let vs = base_vertices(b);
    c.push(Call::Filter(vec![]));
    c.push(Call::Filter(vs.clone()));
    c.push(Call::Filter(vec![vs[0]]));
    c.push(Call::Filter(vec![*vs.last().unwrap(), 1000]));
    for at in 0..6 {
        c.push(Call::FilterPanic(vs.clone(), at));
        c.push(Call::FilterPanic(vec![vs[0]], at));
    }
    for to in 0..6 {
        c.push(Call::Convert(to));
    }
    let source_sets: Vec<Vec<usize>> = vec![
        vec![],
        vec![vs[0]],
        vec![*vs.last().unwrap(), vs[0]],
        vec![n],
        vec![n + 1],
        vec![1000],
        vec![usize::MAX],
        vec![vs[0], n],
        vec![vs.last().unwrap() + 1],
    ];
    for algo in 0..9 {
        for s in &source_sets {
            for consumer in 0..9 {
                c.push(Call::Traverse(algo, s.clone(), consumer, vec![*vs.last().unwrap(), n], 3));
            }
        }
    }
    // source iterators whose size_hint is loose or lies (steps / 8 = hint mode)
    for algo in 0..9 {
        for hint in 8..16_u8 {
            for s in [vec![vs[0]], vec![*vs.last().unwrap(), vs[0]], vec![]] {
                c.push(Call::Traverse(algo, s, 0, vec![n], 3 + 8 * hint));
            }
        }
    }
    c.push(Call::Fw);
    c.push(Call::Tarjan);
    c.push(Call::Johnson);
    c
}

pub fn static_calls() -> Vec<Call> {
    let mut c = vec![];
    let rows: Vec<Vec<Vec<usize>>> = vec![
        vec![],
        vec![vec![]],
        vec![vec![1], vec![0]],
        vec![vec![0]],
        vec![vec![1], vec![2]],
        vec![vec![5], vec![]],
        vec![vec![1, 2], vec![2], vec![0]],
        vec![vec![usize::MAX], vec![]],
    ];
    for t in 0..3 {
        for r in &rows {
            c.push(Call::FromRows(t, r.clone()));
        }
        for hint in 8..16_u8 {
            for r in [&rows[2], &rows[6], &rows[4]] {
                c.push(Call::FromRows(t + 3 * hint, r.clone()));
            }
        }
    }
    for ty in 0..5 {
        c.push(Call::Weights(ty, 4, vec![(0, 0, 1), (0, 1, 2), (0, 2, 0), (0, 0, 3), (3, 0, 0), (4, 0, 0), (2, 0, 1), (7, 0, 1), (1, 0, 1), (1, 0, 1), (5, 0, 0), (6, 0, 0), (0, 1, 1), (0, 0, 4), (0, 9, 0), (2, 9, 9), (6, 9, 0), (4, 0, 0)]));
        c.push(Call::Weights(ty, 1, vec![(4, 0, 0), (5, 0, 0), (3, 0, 0)]));
    }
    let arcs: Vec<Vec<(usize, usize)>> = vec![
        vec![],
        vec![(0, 1)],
        vec![(0, 0)],
        vec![(0, 1), (1, 0), (0, 1)],
        vec![(3, 300)],
        vec![(0, usize::MAX)],
        vec![(usize::MAX, 0)],
        vec![(2, 1), (5, 5)],
    ];
    for t in 0..2 {
        for a in &arcs {
            c.push(Call::FromArcs(t, a.clone()));
        }
        for hint in 8..16_u8 {
            for a in [&arcs[1], &arcs[3], &arcs[7]] {
                c.push(Call::FromArcs(t + 2 * hint, a.clone()));
            }
        }
    }
    for repr in 0..4 {
        for kind in 0..14 {
            for n in [0, 1, 2, 3, 4, 5, 8] {
                for m2 in [0, 2] {
                    let pks: &[u8] = if kind == 11 { &[0, 1, 2, 3, 4, 5, 6, 7] } else { &[2] };
                    for &pk in pks {
                        c.push(Call::Gen(repr, kind, n, m2, 7 + n as u64, pk));
                    }
                }
            }
        }
    }
    for which in 0..BIG_ORDERS.len() as u8 {
        for ops in [
            vec![(0_u8, 0_usize, 1_usize)],
            vec![(1, 0, 1)],
            vec![(2, 0, 1)],
            vec![(3, 0, 1)],
            vec![(0, 0, 1), (1, 0, 1), (3, 0, 1), (2, 1, 0)],
            vec![(0, 1000, 1001), (1, 1001, 1000), (2, 1003, 1)],
        ] {
            c.push(Call::MatrixBig(which, ops));
        }
    }
    for kind in 0..2 {
        for order in [0, 1, 3] {
            for inf_max in [true, false] {
                for tamper in 0..5 {
                    c.push(Call::DistMatrix(
                        kind,
                        order,
                        inf_max,
                        vec![(0, 0, 1), (order, 0, 2), (0, order, 3), (1, 2, 4), (1000, 1000, 5), (usize::MAX, 1, 6), (2, usize::MAX, 7)],
                        vec![0, order * order, order * order + 1, usize::MAX],
                        tamper,
                    ));
                }
            }
        }
    }
    let trees: Vec<Vec<Option<usize>>> = vec![
        vec![],
        vec![None],
        vec![Some(0)],
        vec![Some(1), Some(0)],
        vec![Some(1000), None],
        vec![Some(usize::MAX)],
        vec![Some(1), Some(2), None],
        vec![Some(1), Some(2), Some(7)],
        vec![Some(2), None, Some(3)],
    ];
    for t in &trees {
        for s in [0, 1, t.len(), 1000] {
            for tgt in [0, 1, 1000] {
                for mode in 0..5 {
                    c.push(Call::PredTree(t.clone(), s, tgt, mode));
                }
            }
        }
    }
    for order in [0, 1, 3] {
        for i in [0, 2, 3, 1000] {
            c.push(Call::PredTreeNew(order, i));
        }
    }
    c.push(Call::Prng(0, 8));
    c.push(Call::Prng(u64::MAX, 8));
    c
}

/// Calls whose implementation sizes worker-thread chunks from the CPU count.
fn thread_relevant(c: &Call) -> bool {
    match c {
        Call::Op(_) | Call::Pred(1) | Call::Q0(7) => true,
        Call::Gen(repr, kind, ..) => *repr < 2 && matches!(kind % 14, 2 | 11 | 12),
        _ => false,
    }
}

/// Larger bases for the CPU-count segment, so that a worker gets several rows.
fn wide_bases() -> Vec<Base> {
    let mut out = vec![];
    for repr in 0..2_u8 {
        for n in [5_usize, 7, 8] {
            let arcs = (0..n).map(|i| (i, (i + 1) % n, 1)).chain((2..n).map(|i| (i, 0, 1))).collect();
            out.push(Base { repr, order: n, arcs, extra_ids: vec![], drop_ids: vec![] });
        }
    }
    out.push(Base { repr: 1, order: 6, arcs: vec![(0, 9, 1), (9, 3, 1), (5, 12, 1)], extra_ids: vec![9, 12], drop_ids: vec![1] });
    // rows with exactly 255 / 256 / 257 out-neighbours (inline-buffer sized rows)
    for repr in 0..2_u8 {
        for n in [256_usize, 257, 258] {
            let arcs = (1..n).flat_map(|i| [(0, i, 1), (i, 0, 1)]).collect();
            out.push(Base { repr, order: n, arcs, extra_ids: vec![], drop_ids: vec![] });
        }
    }
    out
}

fn cpu_segment() -> Vec<(Program, usize)> {
    let mut out = vec![];
    for b in bases().into_iter().chain(wide_bases()) {
        for c in base_calls(&b).into_iter().filter(thread_relevant) {
            for k in [1, 2, 3] {
                out.push((Program { base: b.clone(), calls: vec![c.clone()] }, k));
            }
        }
    }
    for c in static_calls().into_iter().filter(thread_relevant) {
        for k in [1, 2, 3] {
            out.push((
                Program {
                    base: Base { repr: 0, order: 1, arcs: vec![], extra_ids: vec![], drop_ids: vec![] },
                    calls: vec![c.clone()],
                },
                k,
            ));
        }
    }
    out
}

/// The whole sweep, built once per process.
fn sweep() -> &'static Vec<(Program, usize)> {
    static SWEEP: std::sync::OnceLock<Vec<(Program, usize)>> = std::sync::OnceLock::new();
    SWEEP.get_or_init(|| {
        let mut all = vec![];
        for b in bases() {
            for c in base_calls(&b) {
                all.push((Program { base: b.clone(), calls: vec![c] }, 0));
            }
        }
        for c in static_calls() {
            all.push((
                Program {
                    base: Base { repr: 0, order: 1, arcs: vec![], extra_ids: vec![], drop_ids: vec![] },
                    calls: vec![c],
                },
                0,
            ));
        }
        all.extend(cpu_segment());
        all
    })
}

pub fn sweep_size() -> u64 {
    sweep().len() as u64
}

pub fn sweep_case(idx: u64) -> Option<(Program, usize)> {
    sweep().get(idx as usize).cloned()
}

/// Cases for the Miri leg: the part of the sweep where undefined behaviour
/// could hide from AddressSanitizer (in-allocation overreads, pointer
/// arithmetic without dereference, data races): every unsafe-reaching call
/// whose vertex arguments leave V or whose base is non-contiguous, and the
/// CPU-count segment (Miri's -Zmiri-num-cpus sets the count there).
pub fn miri_cases() -> Vec<Case> {
    let mut all: Vec<(Program, usize)> = vec![];
    for b in bases() {
        for c in base_calls(&b) {
            all.push((Program { base: b.clone(), calls: vec![c] }, 0));
        }
    }
    for c in static_calls() {
        all.push((
            Program {
                base: Base { repr: 0, order: 1, arcs: vec![], extra_ids: vec![], drop_ids: vec![] },
                calls: vec![c],
            },
            0,
        ));
    }
    all.extend(cpu_segment());
    all.into_iter()
        .filter_map(|(program, cpus)| {
            let vs = base_vertices(&program.base);
            let noncontig = vs.iter().copied().ne(0..vs.len());
            let outside = program.calls.iter().any(|c| vertex_args(c).iter().any(|v| !vs.contains(v)));
            let interesting = program.calls.iter().any(reaches_unsafe) && (outside || noncontig || cpus > 0);
            // big inputs make Miri crawl; they are covered natively
            let heavy = program.base.order > 16
                || program.calls.iter().any(|c| {
                    matches!(c, Call::MatrixBig(..))
                        || matches!(c, Call::FromArcs(_, a) if a.iter().any(|&(u, v)| u > 64 || v > 64))
                        || matches!(c, Call::FromRows(_, r) if r.iter().flatten().any(|&v| v > 64))
                });
            (interesting && !heavy).then_some(Case { program, leak: false, cpus: 0 })
        })
        .collect()
}

// ---------------------------------------------------------------------------
// random programs
// ---------------------------------------------------------------------------

fn varg(raw: u16, class: u8, n: usize) -> usize {
    match class % 12 {
        0..=5 => gen::idx(raw, n),
        6 => n,
        7 => n + 1,
        8 => 1000,
        9 => usize::MAX,
        10 => [5, 7, 37, 500, 1 << 20][raw as usize % 5],
        _ => gen::idx(raw, n + 3),
    }
}

pub type RawCall = (u8, (u16, u8, u16, u8), (u8, u8, u8), Vec<(u16, u8)>, i64);

/// The single mapping from raw random values to a program, shared by the
/// proptest strategy and the libFuzzer byte decoder.
pub fn program_from_raw(
    repr: u8,
    n: usize,
    raw_arcs: Vec<((u16, u16), i64)>,
    mapclass: u8,
    raw_calls: Vec<RawCall>,
) -> Program {
            let mut arcs: Vec<(usize, usize, i64)> = vec![];
            if n >= 2 {
                for &(p, w) in &raw_arcs {
                    let (u, v) = gen::arc_of(p, n);
                    if !arcs.iter().any(|a| (a.0, a.1) == (u, v)) {
                        arcs.push((u, v, w));
                    }
                }
            }
            let (extra_ids, drop_ids) = if repr == 1 {
                match mapclass % 4 {
                    0 => (vec![], vec![]),
                    1 => (vec![n + 4], vec![]),
                    2 => (vec![37, 1000], vec![0]),
                    _ => (vec![500], (0..n / 2).collect()),
                }
            } else {
                (vec![], vec![])
            };
            if repr == 1 && !extra_ids.is_empty() && n >= 1 {
                arcs.push((n - 1, extra_ids[0], 1));
                if drop_ids.is_empty() || !drop_ids.contains(&0) {
                    arcs.push((extra_ids[0], 0, 1));
                }
            }
            let base = Base { repr, order: n, arcs, extra_ids, drop_ids };
            let calls = raw_calls
                .into_iter()
                .map(|(k, (ru, cu, rv, cv), (x, y, z), list, w)| {
                    let u = varg(ru, cu, n);
                    let v = varg(rv, cv, n);
                    let vs: Vec<usize> = list.iter().map(|&(r, c)| varg(r, c, n)).collect();
                    match k {
                        0..=7 => Call::AddArc(u, v),
                        8..=11 => Call::AddArcWeighted(u, v, w),
                        12..=15 => Call::RemoveArc(u, v),
                        16 => Call::Weights(x, (y % 6) as usize, list.iter().map(|&(r, c)| (c, (r % 7) as usize, (r / 7 % 7) as usize)).chain([(z, u.min(9), v.min(9)), (4, 0, 0), (3, 0, 0)]).collect()),
                        17..=19 => Call::Toggle(u, v),
                        20..=23 => Call::Q0(x),
                        24..=31 => Call::Q1(x, u),
                        32..=36 => Call::Q2(x, u, v),
                        37..=39 => Call::HasWalk(vs),
                        40..=44 => Call::Pred(x),
                        45..=47 => Call::Rel(x, y),
                        48..=53 => Call::Op(x),
                        54..=55 => Call::Filter(vs),
                        56 => Call::FilterPanic(vs, (z % 8) as usize),
                        57..=59 => Call::Convert(x),
                        60 => Call::FromRows(x, list.iter().map(|&(r, c)| vec![varg(r, c, 3)]).collect()),
                        61 => {
                            // ids are kept <= 1000 or at usize::MAX: an id like 2^20
                            // would make AdjacencyMatrix::from allocate 2^40 cells
                            // (out-of-memory abort, not a memory-safety finding)
                            let small = |v: usize| if v > 1000 && v != usize::MAX { 1000 } else { v };
                            Call::FromArcs(x, list.iter().map(|&(r, c)| (small(varg(r, c, 4)), (r % 5) as usize)).collect())
                        }
                        62..=65 => Call::Gen(x, y, (z % 10) as usize, (ru % 4) as usize, w as u64, cu),
                        66 => Call::MatrixBig(x, vec![(y, u.min(1001), v.min(1001)), (z, v.min(1001), u.min(1001))]),
                        67..=84 => Call::Traverse(x, vs, y, vec![u, v], z),
                        85..=86 => Call::Bfm(u),
                        87 => Call::Fw,
                        88..=89 => Call::Tarjan,
                        90..=91 => Call::Johnson,
                        92..=93 => Call::DistMatrix(x, (y % 5) as usize, z % 2 == 0, vec![(u, v, w % 60), (v, u, 1)], vec![u, v], cu % 5),
                        94..=97 => Call::PredTree(
                            list.iter().map(|&(r, c)| if c % 5 == 0 { None } else { Some(varg(r, c, list.len())) }).collect(),
                            u.min(list.len() + 1),
                            v,
                            x,
                        ),
                        98 => Call::PredTreeNew((y % 5) as usize, u),
                        _ => Call::Prng(w as u64, z % 16),
                    }
                })
                .collect();
            Program { base, calls }
}

pub fn program_strategy() -> BoxedStrategy<Program> {
    let call = (
        0..100_u8,
        (any::<u16>(), any::<u8>(), any::<u16>(), any::<u8>()),
        (any::<u8>(), any::<u8>(), any::<u8>()),
        vec((any::<u16>(), any::<u8>()), 0..4),
        any::<i64>(),
    );
    (
        0..6_u8,
        1..=8_usize,
        vec(((any::<u16>(), any::<u16>()), -50..50_i64), 0..=16),
        any::<u8>(),
        vec(call, 1..=6),
    )
        .prop_map(|(repr, n, raw_arcs, mapclass, raw_calls)| program_from_raw(repr, n, raw_arcs, mapclass, raw_calls))
        .boxed()
}

/// Decodes a libFuzzer input into a program (total: every byte string maps
/// to some program).
pub fn program_from_bytes(data: &[u8]) -> Program {
    let mut b = crate::bytes::Bytes::new(data);
    let repr = b.u8() % 6;
    let n = 1 + (b.u8() as usize % 8);
    let mapclass = b.u8();
    let narcs = b.count(16);
    let raw_arcs = (0..narcs).map(|_| ((b.u16(), b.u16()), i64::from(b.u8()) - 50)).collect();
    let ncalls = 1 + b.count(5);
    let raw_calls = (0..ncalls)
        .map(|_| {
            let k = b.u8() % 100;
            let a = (b.u16(), b.u8(), b.u16(), b.u8());
            let x = (b.u8(), b.u8(), b.u8());
            let nl = b.count(3);
            let list = (0..nl).map(|_| (b.u16(), b.u8())).collect();
            let w = if b.u8() % 4 == 0 { b.i64() } else { i64::from(b.u8()) - 100 };
            (k, a, x, list, w)
        })
        .collect();
    program_from_raw(repr, n, raw_arcs, mapclass, raw_calls)
}

// ---------------------------------------------------------------------------
// classification
// ---------------------------------------------------------------------------

fn call_name(c: &Call) -> String {
    match c {
        Call::AddArc(..) => "add_arc".into(),
        Call::AddArcWeighted(..) => "add_arc_weighted".into(),
        Call::RemoveArc(..) => "remove_arc".into(),
        Call::Toggle(..) => "toggle".into(),
        Call::Q0(i) => probe::Q0_NAMES[*i as usize % 17].into(),
        Call::Q1(i, _) => probe::Q1_NAMES[*i as usize % 11].into(),
        Call::Q2(i, ..) => probe::Q2_NAMES[*i as usize % 3].into(),
        Call::HasWalk(_) => "has_walk".into(),
        Call::Pred(i) => probe::PRED_NAMES[*i as usize % 8].into(),
        Call::Rel(i, _) => ["is_subdigraph", "is_superdigraph", "is_spanning_subdigraph"][*i as usize % 3].into(),
        Call::Op(i) => ["complement", "converse", "union(self)", "union(converse)", "union(other order)"][*i as usize % 5].into(),
        Call::Filter(_) => "filter_vertices".into(),
        Call::FilterPanic(..) => "filter_vertices(panicking predicate)".into(),
        Call::Convert(_) => "From<representation>".into(),
        Call::FromRows(..) => "From<rows>".into(),
        Call::FromArcs(..) => "From<arcs>".into(),
        Call::Gen(_, k, ..) => format!("gen::{}", probe::GEN_NAMES[*k as usize % 14]),
        Call::MatrixBig(..) => "AdjacencyMatrix::empty(order^2 overflows)".into(),
        Call::Traverse(a, _, c, ..) => format!(
            "{}::{}",
            probe::ALGOS[*a as usize % 9],
            ["collect", "distances", "predecessors", "shortest_path", "cycles", "next", "clone+drop original", "step, clone, drop original", "shortest_path(panicking predicate)"][*c as usize % 9]
        ),
        Call::Bfm(_) => "BellmanFordMoore".into(),
        Call::Fw => "FloydWarshall".into(),
        Call::Tarjan => "Tarjan".into(),
        Call::Johnson => "Johnson75".into(),
        Call::DistMatrix(..) => "DistanceMatrix".into(),
        Call::PredTree(..) => "PredecessorTree::search".into(),
        Call::PredTreeNew(..) => "PredecessorTree::new".into(),
        Call::Prng(..) => "Xoshiro256StarStar".into(),
        Call::Weights(t, ..) => format!("AdjacencyListWeighted<{}>", ["()", "Box<u32>", "String", "[u64; 4]", "u8"][*t as usize % 5]),
    }
}

fn vertex_args(c: &Call) -> Vec<usize> {
    match c {
        Call::AddArc(u, v) | Call::AddArcWeighted(u, v, _) | Call::RemoveArc(u, v) | Call::Toggle(u, v) | Call::Q2(_, u, v) => vec![*u, *v],
        Call::Q1(_, u) | Call::Bfm(u) => vec![*u],
        Call::HasWalk(w) | Call::Filter(w) | Call::FilterPanic(w, _) => w.clone(),
        Call::Traverse(_, s, ..) => s.clone(),
        Call::PredTree(p, s, t, _) => {
            let mut v: Vec<usize> = p.iter().flatten().copied().collect();
            v.push(*s);
            v.push(*t);
            v
        }
        Call::PredTreeNew(_, i) => vec![*i],
        Call::DistMatrix(_, _, _, w, r, _) => w.iter().flat_map(|x| [x.0, x.1]).chain(r.iter().copied()).collect(),
        _ => vec![],
    }
}

/// Entry points whose implementation contains an `unsafe` block (anchors of
/// the property): everything except plain BTree lookups.
fn reaches_unsafe(c: &Call) -> bool {
    !matches!(
        c,
        Call::RemoveArc(..) | Call::Q2(..) | Call::Prng(..) | Call::Filter(_) | Call::FilterPanic(..) | Call::Tarjan
    )
}

// ---------------------------------------------------------------------------
// leak meter
// ---------------------------------------------------------------------------

fn growth(base: &AnyD, call: &Call, n: usize) -> isize {
    let before = sys::live_settled().0;
    for _ in 0..n {
        let mut d = base.clone();
        let _ = guarded(|| probe::exec(&mut d, call));
        drop(d);
    }
    sys::live_settled().0 - before
}

/// Returns the bytes leaked per call if repeating the call grows the heap in
/// proportion to the number of calls.
pub fn leak_per_call(base: &AnyD, call: &Call) -> Option<isize> {
    // warm-up: lazy statics, thread-local buffers, panic-message capacity
    let _ = growth(base, call, 2);
    let g8 = growth(base, call, 8);
    if g8 <= 0 {
        return None;
    }
    let g16 = growth(base, call, 16);
    if g16 > 0 && g16 >= g8 + g8 / 2 {
        let g32 = growth(base, call, 32);
        if g32 >= g16 + g16 / 2 {
            return Some(g32 / 32);
        }
    }
    None
}

impl Prop for C13 {
    type Case = Case;
    const ID: &'static str = "C13";
    const NUM: u64 = 13;
    const RULE: &'static str = "API programs = (representation, base digraph of order 1..8 incl. non-contiguous AdjacencyMap vertex sets, 1..6 calls) over every public entry point: mutators, every query, predicates and relations, complement/converse/union/filter_vertices, every From conversion and From<rows|arcs> (self-loops, out-of-range heads, empty, usize::MAX ids), every generator (orders 0..8, p incl. NaN / out of range; AdjacencyMatrix::empty at orders whose square overflows followed by add_arc/has_arc/toggle/remove_arc), Bfs/BfsDist/BfsPred/Dfs/DfsDist/DfsPred/Dijkstra/DijkstraDist/DijkstraPred with 0..3 sources and every consumer (collect, distances, predecessors, shortest_path, cycles, stepping, a clone consumed after the original is dropped, user predicates that panic), BellmanFordMoore, FloydWarshall, DistanceMatrix (new, metrics, Index/IndexMut in and out of range, tampered pub fields), Tarjan, Johnson75, PredecessorTree (entries in and out of range, built through eight public routes incl. growing / truncating the public field), AdjacencyListWeighted with the weight types (), Box<u32>, String, [u64; 4], u8 (add / overwrite / remove / clone / converse / From<rows>), Xoshiro256StarStar; source, row and arc iterators report an exact, an honest-but-loose or a lying size_hint (upper bound too small, lower bound too large); vertex arguments range over in-range ids, order, order+1, 1000, usize::MAX. Legs: systematic sweep (every entry point x every argument class x 21 base digraphs) and random programs, both in a child process built with AddressSanitizer + std unsafe-precondition checks; the sweep again in the plain release build with the counting-allocator leak meter. Outcome of every call must be return or unwinding panic; the digraph must stay structurally valid. A CPU-count segment repeats every thread-relevant call under 1, 2 and 3 CPUs on wider bases, including stars with rows of 255/256/257 out-neighbours; random programs run under a generated CPU count. Non-trivial = the program has a vertex argument outside V or a non-contiguous base, and a call that reaches an unsafe block; distinct = distinct serialised program.";
    const ASSUMPTIONS: &'static [&'static str] = &[
        "any unwinding Rust panic is accepted as 'the documented panic' (whether its text is documented cannot be judged mechanically)",
        "allocation-heavy arguments (huge orders whose square does not overflow) are excluded so that out-of-memory cannot masquerade as a finding; process-level OOM is exit 2",
        "a leak is reported only if heap growth scales with the number of calls (8, 16, 32 repetitions)",
    ];

    fn legs(tier: Tier) -> Vec<Leg> {
        vec![
            Leg {
                name: "sweep-asan",
                kind: LegKind::Enumerated { count: sweep_size() },
                workers: 16,
                build: Build::Asan,
            },
            Leg {
                name: "random-asan",
                kind: LegKind::Random { cases: tier.pick(12_000, 80_000) },
                workers: 16,
                build: Build::Asan,
            },
            Leg {
                name: "sweep-leak",
                kind: LegKind::Enumerated { count: sweep_size() },
                workers: 16,
                build: Build::Normal,
            },
            Leg {
                name: "random-leak",
                kind: LegKind::Random { cases: tier.pick(1500, 10_000) },
                workers: 16,
                build: Build::Normal,
            },
        ]
    }

    fn strategy(leg: &str, _tier: Tier) -> BoxedStrategy<Case> {
        let leak = leg.ends_with("leak");
        (program_strategy(), prop_oneof![3 => Just(0_usize), 2 => 1..=3_usize, 1 => 4..=16_usize])
            .prop_map(move |(program, cpus)| Case { program, leak, cpus })
            .boxed()
    }

    fn enum_case(leg: &str, _tier: Tier, idx: u64) -> Option<Case> {
        sweep_case(idx).map(|(program, cpus)| Case { program, leak: leg.ends_with("leak"), cpus })
    }

    fn shrink(c: &Case) -> Vec<Case> {
        let mut out = vec![];
        let p = &c.program;
        for i in (0..p.calls.len()).rev() {
            if p.calls.len() > 1 {
                let mut calls = p.calls.clone();
                calls.remove(i);
                out.push(Case { program: Program { base: p.base.clone(), calls }, leak: c.leak, cpus: c.cpus });
            }
        }
        for i in 0..p.base.arcs.len() {
            let mut base = p.base.clone();
            base.arcs.remove(i);
            out.push(Case { program: Program { base, calls: p.calls.clone() }, leak: c.leak, cpus: c.cpus });
        }
        out
    }

    fn check(c: &Case, obs: &mut Obs) -> Verdict {
        if c.cpus == 0 {
            return Self::check_inner(c, obs);
        }
        let cpus = sys::Cpus::new();
        let (r, seen) = cpus.with(c.cpus, sys::rot(), || Self::check_inner(c, obs));
        obs.label(format!("cpus-set={seen}"));
        r
    }
}

impl C13 {
    fn check_inner(c: &Case, obs: &mut Obs) -> Verdict {
        let p = &c.program;
        let stats = probe::run_program(p)?;
        if c.leak {
            let base = guarded(|| probe::build(&p.base)).map_err(|m| format!("harness: base: {m}"))?;
            let mut d = base;
            for (i, call) in p.calls.iter().enumerate() {
                if let Some(bytes) = leak_per_call(&d, call) {
                    return Err(format!(
                        "call {i} {call:?} on {} leaks about {bytes} bytes per call: repeating it 8, 16 and 32 times grows the live heap proportionally",
                        probe::REPRS[p.base.repr as usize % 6]
                    ));
                }
                let _ = guarded(|| probe::exec(&mut d, call));
            }
            obs.label("leak-metered");
        }
        let vs = base_vertices(&p.base);
        let noncontig = vs.iter().copied().ne(0..vs.len());
        let outside = p.calls.iter().any(|c| vertex_args(c).iter().any(|v| !vs.contains(v)));
        let unsafe_reach = p.calls.iter().any(reaches_unsafe);
        for call in &p.calls {
            obs.count(&format!("entry:{}", call_name(call)), 1);
        }
        obs.count("calls-returned", stats.returned as u64);
        obs.count("calls-panicked", stats.panicked as u64);
        obs.label(format!("repr={}", probe::REPRS[p.base.repr as usize % 6]));
        if noncontig {
            obs.label("non-contiguous-base");
        }
        if outside {
            obs.label("vertex-argument-outside-V");
        }
        if stats.panicked > 0 {
            obs.label("some-call-panicked");
        }
        ensure!(stats.returned + stats.panicked == p.calls.len(), "harness: call accounting");
        if (outside || noncontig) && unsafe_reach {
            obs.nontrivial();
        }
        Ok(())
    }
}
