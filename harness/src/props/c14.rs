//! C14 — deterministic generators produce exactly their defining arc sets at
//! every order.

use crate::{
    ensure,
    model::{closed_form, UModel},
    reprs,
    runner::{guarded, Build, Leg, LegKind, Obs, Prop, Tier, Verdict},
    sys::{self, Cpus},
};
use graaf::{
    AdjacencyList, AdjacencyListWeighted, AdjacencyMap, AdjacencyMatrix, Arcs, Biclique, Circuit,
    Complete, Cycle, EdgeList, Empty, Order, Path, Size, Star, Vertices, Wheel,
};
use proptest::prelude::*;
use serde::{Deserialize, Serialize};

#[derive(Clone, Debug, Serialize, Deserialize)]
pub struct Case {
    pub kind: String,
    pub n: usize,
    pub m2: usize,
    pub cpus: usize,
}

pub struct C14;

pub const KINDS: [&str; 8] = ["empty", "complete", "circuit", "cycle", "path", "star", "wheel", "biclique"];

pub trait Gens: Sized + Clone + Eq + std::fmt::Debug + Empty + Complete + Circuit + Cycle + Path + Star + Wheel + Biclique + Order + Size + Vertices + Arcs {}
impl<T: Sized + Clone + Eq + std::fmt::Debug + Empty + Complete + Circuit + Cycle + Path + Star + Wheel + Biclique + Order + Size + Vertices + Arcs> Gens for T {}

fn make<D: Gens>(kind: &str, n: usize, m2: usize) -> D {
    match kind {
        "empty" => D::empty(n),
        "complete" => D::complete(n),
        "circuit" => D::circuit(n),
        "cycle" => D::cycle(n),
        "path" => D::path(n),
        "star" => D::star(n),
        "wheel" => D::wheel(n),
        "biclique" => D::biclique(n, m2),
        "trivial" => D::trivial(),
        "claw" => D::claw(),
        "utility" => D::utility(),
        _ => panic!("harness: unknown generator {kind}"),
    }
}

fn admissible(kind: &str, n: usize, m2: usize) -> bool {
    match kind {
        "wheel" => n >= 4,
        "biclique" => n >= 1 && m2 >= 1,
        "trivial" | "claw" | "utility" => true,
        _ => n >= 1,
    }
}

fn reference(kind: &str, n: usize, m2: usize) -> UModel {
    let (order, arcs) = match kind {
        "trivial" => closed_form("empty", 1, 0),
        "claw" => closed_form("biclique", 1, 3),
        "utility" => closed_form("biclique", 3, 3),
        k => closed_form(k, n, m2),
    };
    UModel::from_pairs(order, &arcs)
}

/// complete(n) / biclique(m, n) of AdjacencyList (the threaded constructors) at
/// parameters where the arc list runs into millions: verified row by row
/// against the closed form without materialising the model.
fn check_large_adjacency_list(c: &Case) -> Verdict {
    use graaf::OutNeighbors;
    let what = format!("AdjacencyList::{}({}, {})", c.kind, c.n, c.m2);
    let d: AdjacencyList = guarded(|| make::<AdjacencyList>(&c.kind, c.n, c.m2)).map_err(|p| format!("{what} panicked: {p}"))?;
    let (order, size) = if c.kind == "biclique" { (c.n + c.m2, 2 * c.n * c.m2) } else { (c.n, c.n * (c.n - 1)) };
    ensure!(d.order() == order, "{what}: order() = {}, expected {order}", d.order());
    ensure!(d.vertices().eq(0..order), "{what}: vertices() is not 0..{order}");
    ensure!(d.size() == size, "{what}: size() = {}, expected {size}", d.size());
    for u in 0..order {
        let ok = if c.kind == "biclique" {
            if u < c.n {
                d.out_neighbors(u).eq(c.n..order)
            } else {
                d.out_neighbors(u).eq(0..c.n)
            }
        } else {
            d.out_neighbors(u).eq((0..order).filter(|&v| v != u))
        };
        if !ok {
            let row: Vec<usize> = d.out_neighbors(u).take(12).collect();
            return Err(format!("{what}: row {u} is wrong (outdegree {}, starts {row:?})", d.out_neighbors(u).count()));
        }
    }
    Ok(())
}

fn check_one<D: Gens>(c: &Case, name: &str) -> Result<Option<D>, String> {
    let what = format!("{name}::{}({}{})", c.kind, c.n, if c.kind == "biclique" { format!(", {}", c.m2) } else { String::new() });
    let r = guarded(|| make::<D>(&c.kind, c.n, c.m2));
    if !admissible(&c.kind, c.n, c.m2) {
        ensure!(r.is_err(), "{what} must panic for an inadmissible parameter but returned {:?}", r.ok().map(|d| reprs::observe(&d)));
        return Ok(None);
    }
    let d = r.map_err(|p| format!("{what} panicked: {p}"))?;
    let m = reference(&c.kind, c.n, c.m2);
    reprs::same(&d, &m, &what)?;
    Ok(Some(d))
}

impl Prop for C14 {
    type Case = Case;
    const ID: &'static str = "C14";
    const NUM: u64 = 14;
    const RULE: &'static str = "enumerated, not sampled: every order 0..=96 (quick) / 0..=200 (thorough) for empty, complete, circuit, cycle, path, star, wheel under CPU counts {1,2,3,5,max} (thorough: every count 1..=max), every (m, n) in 0..=24 squared (thorough 0..=40 squared) for biclique, and trivial/claw/utility, in AdjacencyList, AdjacencyMap, AdjacencyMatrix, EdgeList (plus empty for AdjacencyListWeighted); inadmissible parameters (order 0, wheel order < 4, m or n = 0) must panic; a random leg adds orders up to 300 (thorough 600) and 200..3100 at arbitrary CPU counts (complete capped at 700 there); a 'huge-al' leg checks AdjacencyList::complete(n) for n up to 2100 (1023..1025, 2047..2049, ...) and AdjacencyList::biclique(m, n) with m*n >= 2^16 row by row at 2..16 CPUs. trivial / claw / utility (and every generator up to order 8) are also called on user-side newtypes that implement only the required trait methods and inherit the provided ones. Oracle: closed-form arc sets written from the property text. Non-trivial = order greater than the number of CPUs in the configuration, or order squared not a multiple of 64; distinct = distinct (generator, parameters, CPU count).";
    const ASSUMPTIONS: &'static [&'static str] = &["closed forms in harness/src/model.rs::closed_form are transcriptions of the property statement"];

    fn legs(tier: Tier) -> Vec<Leg> {
        let (orders, cfgs, bi) = dims(tier);
        vec![
            Leg {
                name: "enum",
                kind: LegKind::Enumerated {
                    count: 7 * orders * cfgs + bi * bi + 3,
                },
                workers: 16,
                build: Build::Normal,
            },
            Leg {
                name: "random",
                kind: LegKind::Random {
                    cases: tier.pick(60, 400),
                },
                workers: 16,
                build: Build::Normal,
            },
            Leg {
                name: "huge-al",
                kind: LegKind::Random {
                    cases: tier.pick(3, 24),
                },
                workers: 16,
                build: Build::Normal,
            },
        ]
    }

    fn strategy(leg: &str, tier: Tier) -> BoxedStrategy<Case> {
        if leg == "huge-al" {
            return prop_oneof![
                (prop_oneof![
                    2 => proptest::sample::select(vec![1023_usize, 1024, 1025, 1535, 1537, 2047, 2048, 2049]),
                    1 => 700..=2100_usize,
                ], 2..=16_usize)
                    .prop_map(|(n, cpus)| Case { kind: "huge-al:complete".into(), n, m2: 0, cpus }),
                (prop_oneof![
                    1 => proptest::sample::select(vec![(307_usize, 509_usize), (101, 1000), (100, 1000), (256, 256), (257, 255), (64, 1024), (1025, 64)]),
                    1 => (64..=600_usize, 110..=1100_usize),
                ], 2..=16_usize)
                    .prop_map(|((m, n), cpus)| Case { kind: "huge-al:biclique".into(), n: m, m2: n, cpus }),
            ]
            .boxed();
        }
        (
            0..8_usize,
            prop_oneof![3 => 97..=tier.pick(300_usize, 600), 1 => 200..=3100_usize],
            1..=40_usize,
            1..=16_usize,
        )
            .prop_map(|(k, n, m2, cpus)| {
                let kind = KINDS[k];
                Case {
                    kind: kind.to_string(),
                    n: match kind {
                        "biclique" => n / 4,
                        // complete(n) has n(n-1) arcs in four representations: capped
                        "complete" => n.min(700),
                        _ => n,
                    },
                    m2,
                    cpus,
                }
            })
            .boxed()
    }

    fn enum_case(_leg: &str, tier: Tier, mut idx: u64) -> Option<Case> {
        let (orders, cfgs, bi) = dims(tier);
        let max = Cpus::new().max();
        if idx < 7 * orders * cfgs {
            let kind = KINDS[(idx % 7) as usize];
            idx /= 7;
            let n = (idx % orders) as usize;
            let cfg = (idx / orders) as usize;
            let cpus = match tier {
                Tier::Quick => [1, 2, 3, 5, max][cfg],
                Tier::Thorough => cfg + 1,
            };
            return Some(Case {
                kind: kind.to_string(),
                n,
                m2: 0,
                cpus,
            });
        }
        idx -= 7 * orders * cfgs;
        if idx < bi * bi {
            return Some(Case {
                kind: "biclique".into(),
                n: (idx / bi) as usize,
                m2: (idx % bi) as usize,
                cpus: 1 + (idx % 3) as usize,
            });
        }
        idx -= bi * bi;
        Some(Case {
            kind: ["trivial", "claw", "utility"][idx as usize % 3].to_string(),
            n: 0,
            m2: 0,
            cpus: 2,
        })
    }

    fn check(c: &Case, obs: &mut Obs) -> Verdict {
        if let Some(kind) = c.kind.strip_prefix("huge-al:") {
            let inner = Case { kind: kind.to_string(), ..c.clone() };
            let cpus = Cpus::new();
            let (res, seen) = cpus.with(c.cpus, sys::rot(), || check_large_adjacency_list(&inner));
            res?;
            obs.label(format!("kind={}", c.kind));
            obs.label(format!("cpus-seen={seen}"));
            obs.nontrivial();
            return Ok(());
        }
        let cpus = Cpus::new();
        let (res, seen) = cpus.with(c.cpus, sys::rot(), || -> Verdict {
            let l = check_one::<AdjacencyList>(c, "AdjacencyList")?;
            let m = check_one::<AdjacencyMap>(c, "AdjacencyMap")?;
            let x = check_one::<AdjacencyMatrix>(c, "AdjacencyMatrix")?;
            let e = check_one::<EdgeList>(c, "EdgeList")?;
            if matches!(c.kind.as_str(), "trivial" | "claw" | "utility" | "empty" | "biclique") || c.n <= 8 {
                // user-side wrappers that inherit the provided trait methods
                let wl = check_one::<reprs::Wrapped<AdjacencyList>>(c, "user-defined wrapper of AdjacencyList (inherits the provided methods)")?;
                let wm = check_one::<reprs::Wrapped<AdjacencyMap>>(c, "user-defined wrapper of AdjacencyMap (inherits the provided methods)")?;
                let wx = check_one::<reprs::Wrapped<AdjacencyMatrix>>(c, "user-defined wrapper of AdjacencyMatrix (inherits the provided methods)")?;
                let we = check_one::<reprs::Wrapped<EdgeList>>(c, "user-defined wrapper of EdgeList (inherits the provided methods)")?;
                ensure!(
                    wl.map(|w| w.0) == l && wm.map(|w| w.0) == m && wx.map(|w| w.0) == x && we.map(|w| w.0) == e,
                    "{}({}): a user-defined wrapper that inherits the provided trait methods produces another digraph than the library type",
                    c.kind,
                    c.n
                );
            }
            if let (Some(l), Some(m), Some(x), Some(e)) = (l, m, x, e) {
                // all representations produce the same digraph
                let o = reprs::observe(&l);
                ensure!(
                    o == reprs::observe(&m) && o == reprs::observe(&x) && o == reprs::observe(&e),
                    "{}({}): the four representations disagree",
                    c.kind,
                    c.n
                );
                ensure!(AdjacencyMap::from(l.clone()) == m, "{}({}): AdjacencyList and AdjacencyMap outputs differ after conversion", c.kind, c.n);
                ensure!(AdjacencyList::from(x.clone()) == l, "{}({}): AdjacencyMatrix and AdjacencyList outputs differ after conversion", c.kind, c.n);
                ensure!(AdjacencyList::from(e.clone()) == l, "{}({}): EdgeList and AdjacencyList outputs differ after conversion", c.kind, c.n);
            }
            if c.kind == "empty" {
                let r = guarded(|| AdjacencyListWeighted::<isize>::empty(c.n));
                if c.n == 0 {
                    ensure!(r.is_err(), "AdjacencyListWeighted::empty(0) must panic");
                } else {
                    let w = r.map_err(|p| format!("AdjacencyListWeighted::empty({}) panicked: {p}", c.n))?;
                    reprs::same(&w, &reference("empty", c.n, 0), "AdjacencyListWeighted::empty")?;
                }
            }
            Ok(())
        });
        res?;
        let order = if c.kind == "biclique" { c.n + c.m2 } else { c.n };
        let adm = admissible(&c.kind, c.n, c.m2);
        obs.label(format!("kind={}", c.kind));
        obs.label(if adm { "admissible" } else { "inadmissible (must panic)" });
        if adm && order > seen {
            obs.label("order > threads");
        }
        if adm && (order * order) % 64 != 0 {
            obs.label("order^2 not a multiple of 64");
        }
        obs.label(format!("cpus-seen={seen}"));
        if adm && (order > seen || (order * order) % 64 != 0) {
            obs.nontrivial();
        }
        Ok(())
    }
}

fn dims(tier: Tier) -> (u64, u64, u64) {
    match tier {
        Tier::Quick => (97, 5, 25),
        Tier::Thorough => (201, Cpus::new().max() as u64, 41),
    }
}
