//! Generators.  Every random choice is a proptest value; raw values are mapped
//! monotonically (`raw * len >> 16`) into index ranges so that shrinking a raw
//! value always yields a valid, simpler case.  No rejection sampling.

use proptest::{collection::vec, prelude::*};
use serde::{Deserialize, Serialize};
use std::collections::BTreeSet;

/// Unweighted digraph on vertices `0..order`.  Arcs are sorted and unique.
#[derive(Clone, Debug, PartialEq, Eq, Serialize, Deserialize)]
pub struct Dg {
    pub order: usize,
    pub arcs: Vec<(usize, usize)>,
}

/// Weighted digraph on vertices `0..order`.
#[derive(Clone, Debug, PartialEq, Eq, Serialize, Deserialize)]
pub struct WDg<W> {
    pub order: usize,
    pub arcs: Vec<(usize, usize, W)>,
}

/// AdjacencyMap digraph whose vertex ids need not be `0..order`.
#[derive(Clone, Debug, PartialEq, Eq, Serialize, Deserialize)]
pub struct MapDg {
    pub vertices: Vec<usize>,
    pub arcs: Vec<(usize, usize)>,
}

pub fn idx(raw: u16, len: usize) -> usize {
    if len == 0 {
        0
    } else {
        ((raw as usize) * len) >> 16
    }
}

/// Maps a raw pair to an arc of a digraph of order n >= 2 without self-loop.
pub fn arc_of(raw: (u16, u16), n: usize) -> (usize, usize) {
    let u = idx(raw.0, n);
    let d = idx(raw.1, n - 1);
    (u, (u + 1 + d) % n)
}

pub fn order_strategy(max: usize) -> BoxedStrategy<usize> {
    let max = max.max(1);
    if max <= 4 {
        return (1..=max).boxed();
    }
    let mid = max.min(12);
    if max <= 12 {
        return prop_oneof![3 => Just(1_usize), 30 => 2..=4_usize, 67 => 5..=mid].boxed();
    }
    prop_oneof![
        3 => Just(1_usize),
        27 => 2..=4_usize,
        45 => 5..=12_usize,
        25 => 13..=max,
    ]
    .boxed()
}

pub const FAMILIES: &[&str] = &[
    "uniform", "path", "rpath", "circuit", "cycle", "star", "wheel", "complete", "tournament",
    "outtree", "intree", "dag", "twoscc", "bipartite", "lollipop", "outforest",
];

#[derive(Clone, Debug)]
pub struct RawDg {
    pub n: usize,
    pub family: usize,
    pub dens: usize,
    pub len_raw: u16,
    pub pairs: Vec<(u16, u16)>,
    pub flips: Vec<(u16, u16)>,
}

/// Orders at which the bit matrix's rows cross 64-bit word boundaries in
/// every possible way (row spans two and three words, order^2 on and off a
/// multiple of 64).  Mixed in at a low rate wherever AdjacencyMatrix takes
/// part, with sparse arcs so the cost stays bounded.
pub const BIG_ORDERS: &[usize] = &[63, 64, 65, 66, 70, 96, 127, 128, 129, 130, 140];

pub fn raw_dg(max_order: usize) -> impl Strategy<Value = RawDg> {
    raw_dg_orders(order_strategy(max_order), max_order)
}

/// Like `raw_dg`, with about one case in 25 at one of `BIG_ORDERS`.
pub fn raw_dg_big(max_order: usize) -> impl Strategy<Value = RawDg> {
    raw_dg_big_rate(max_order, 24)
}

/// Like `raw_dg`, with one case in `ordinary + 1` at a large order: half of
/// them at one of `BIG_ORDERS`, half uniform in 17..=140.
pub fn raw_dg_big_rate(max_order: usize, ordinary: u32) -> impl Strategy<Value = RawDg> {
    raw_dg_orders(
        prop_oneof![
            2 * ordinary => order_strategy(max_order),
            1 => proptest::sample::select(BIG_ORDERS.to_vec()),
            1 => 17..=140_usize,
        ]
        .boxed(),
        max_order,
    )
}

pub fn raw_dg_orders(orders: BoxedStrategy<usize>, max_order: usize) -> impl Strategy<Value = RawDg> {
    let cap = (max_order * max_order).clamp(4, 700);
    (
        orders,
        prop_oneof![50 => Just(0_usize), 50 => 1..FAMILIES.len()],
        0..7_usize,
        any::<u16>(),
        vec((any::<u16>(), any::<u16>()), cap),
        vec((any::<u16>(), any::<u16>()), 0..=3),
    )
        .prop_map(|(n, family, dens, len_raw, pairs, flips)| RawDg {
            n,
            family,
            dens,
            len_raw,
            pairs,
            flips,
        })
}

pub fn family_name(r: &RawDg) -> &'static str {
    FAMILIES[r.family]
}

pub fn build_dg(r: &RawDg) -> Dg {
    let n = r.n;
    let mut a: BTreeSet<(usize, usize)> = BTreeSet::new();
    if n >= 2 {
        let full = n * (n - 1);
        let raw_u = |i: usize| r.pairs[i % r.pairs.len()].0;
        let raw_v = |i: usize| r.pairs[i % r.pairs.len()].1;
        match FAMILIES[r.family] {
            "uniform" => {
                let density = [0.0, 1.0 / n as f64, 0.15, 0.3, 0.5, 0.8, 1.0][r.dens];
                // target counts drawn arcs (duplicates collapse), jittered by len_raw
                let base = (density * full as f64).round() as usize;
                let target = if r.dens == 0 {
                    0
                } else if r.dens == 6 {
                    full
                } else {
                    (base / 2 + idx(r.len_raw, base + 2)).min(r.pairs.len())
                };
                if r.dens == 6 {
                    for u in 0..n {
                        for v in 0..n {
                            if u != v {
                                a.insert((u, v));
                            }
                        }
                    }
                } else {
                    for &p in r.pairs.iter().take(target) {
                        a.insert(arc_of(p, n));
                    }
                }
            }
            "path" => (0..n - 1).for_each(|i| {
                a.insert((i, i + 1));
            }),
            "rpath" => (0..n - 1).for_each(|i| {
                a.insert((i + 1, i));
            }),
            "circuit" => (0..n).for_each(|i| {
                a.insert((i, (i + 1) % n));
            }),
            "cycle" => (0..n).for_each(|i| {
                a.insert((i, (i + 1) % n));
                a.insert(((i + 1) % n, i));
            }),
            "star" => (1..n).for_each(|i| {
                a.insert((0, i));
                a.insert((i, 0));
            }),
            "wheel" => {
                for i in 1..n {
                    a.insert((0, i));
                    a.insert((i, 0));
                }
                if n >= 4 {
                    for i in 1..n {
                        let j = if i == n - 1 { 1 } else { i + 1 };
                        a.insert((i, j));
                        a.insert((j, i));
                    }
                }
            }
            "complete" => {
                for u in 0..n {
                    for v in 0..n {
                        if u != v {
                            a.insert((u, v));
                        }
                    }
                }
            }
            "tournament" => {
                let mut k = 0;
                for u in 0..n {
                    for v in u + 1..n {
                        if raw_u(k) & 1 == 1 {
                            a.insert((u, v));
                        } else {
                            a.insert((v, u));
                        }
                        k += 1;
                    }
                }
            }
            "outtree" => (1..n).for_each(|v| {
                a.insert((idx(raw_u(v), v), v));
            }),
            "intree" => (1..n).for_each(|v| {
                a.insert((v, idx(raw_u(v), v)));
            }),
            "outforest" => (1..n).for_each(|v| {
                // roughly a third of the vertices become roots
                if raw_v(v) % 3 != 0 {
                    a.insert((idx(raw_u(v), v), v));
                }
            }),
            "dag" => {
                let target = idx(r.len_raw, (full / 2).min(r.pairs.len()) + 1);
                for &p in r.pairs.iter().take(target) {
                    let (u, v) = arc_of(p, n);
                    a.insert((u.min(v), u.max(v)));
                }
            }
            "twoscc" => {
                let h = (n / 2).max(1);
                if h >= 2 {
                    (0..h).for_each(|i| {
                        a.insert((i, (i + 1) % h));
                    });
                }
                let m = n - h;
                if m >= 2 {
                    (0..m).for_each(|i| {
                        a.insert((h + i, h + (i + 1) % m));
                    });
                }
                if m >= 1 {
                    a.insert((idx(raw_u(0), h), h + idx(raw_v(0), m)));
                }
            }
            "bipartite" => {
                let h = (n / 2).max(1);
                let target = idx(r.len_raw, r.pairs.len().min(2 * h * (n - h)) + 1);
                for &p in r.pairs.iter().take(target) {
                    let u = idx(p.0, h);
                    let v = h + idx(p.1, n - h);
                    if v < n {
                        if p.0 & 1 == 0 {
                            a.insert((u, v));
                        } else {
                            a.insert((v, u));
                        }
                    }
                }
            }
            "lollipop" => {
                let h = (n / 2).max(1);
                for u in 0..h {
                    for v in 0..h {
                        if u != v {
                            a.insert((u, v));
                        }
                    }
                }
                for i in h.saturating_sub(1)..n - 1 {
                    a.insert((i, i + 1));
                }
            }
            _ => unreachable!(),
        }
        if r.family != 0 {
            for &f in &r.flips {
                let e = arc_of(f, n);
                if !a.remove(&e) {
                    a.insert(e);
                }
            }
        }
    }
    Dg {
        order: n,
        arcs: a.into_iter().collect(),
    }
}

pub fn digraph(max_order: usize) -> BoxedStrategy<Dg> {
    raw_dg(max_order).prop_map(|r| build_dg(&r)).boxed()
}

/// Digraph together with the name of the family that produced it; about one
/// case in 25 has one of `BIG_ORDERS` vertices.
pub fn digraph_labeled_big(max_order: usize) -> BoxedStrategy<(Dg, String)> {
    raw_dg_big(max_order)
        .prop_map(|r| (build_dg(&r), family_name(&r).to_string()))
        .boxed()
}

/// Digraph together with the name of the family that produced it.
pub fn digraph_labeled(max_order: usize) -> BoxedStrategy<(Dg, String)> {
    raw_dg(max_order)
        .prop_map(|r| (build_dg(&r), family_name(&r).to_string()))
        .boxed()
}

/// The idx-th digraph of order n in the lexicographic enumeration of all
/// 2^(n(n-1)) arc subsets (bit i of idx = presence of the i-th ordered pair).
pub fn nth_digraph(n: usize, idx: u64) -> Dg {
    let mut arcs = vec![];
    let mut bit = 0;
    for u in 0..n {
        for v in 0..n {
            if u != v {
                if idx >> bit & 1 == 1 {
                    arcs.push((u, v));
                }
                bit += 1;
            }
        }
    }
    Dg { order: n, arcs }
}

pub fn count_digraphs(n: usize) -> u64 {
    1_u64 << (n * (n - 1))
}

/// Sources: a distinct, shuffled subset of 0..n.  Empty, single and multiple
/// source sets all occur.
pub fn sources_from(raw: &[u16], class: u8, n: usize) -> Vec<usize> {
    let want = match class % 20 {
        0 => 0,
        1..=10 => 1,
        11..=15 => 2,
        16..=18 => 3,
        _ => raw.len(),
    };
    let mut out: Vec<usize> = vec![];
    for &r in raw {
        if out.len() >= want {
            break;
        }
        let v = idx(r, n);
        if !out.contains(&v) {
            out.push(v);
        }
    }
    out
}

pub fn raw_sources() -> impl Strategy<Value = (Vec<u16>, u8)> {
    (vec(any::<u16>(), 6), any::<u8>())
}

/// Subset of 0..n from a raw bit vector and a class
/// (0 empty, 1 singleton, 2.. arbitrary).
pub fn subset_from(bits: u64, class: u8, pick: u16, n: usize) -> Vec<usize> {
    match class % 8 {
        0 => vec![],
        1 | 2 => vec![idx(pick, n)],
        _ => (0..n).filter(|&i| bits >> (i % 64) & 1 == 1).collect(),
    }
}

// --- weights ---------------------------------------------------------------

/// usize weights: class 0 all zero, 1 in 0..=1, 2 small 0..=10 (ties and
/// superseded heap entries), 3 medium, 4 up to 2^40.
pub fn uweight(class: u8, raw: u32) -> usize {
    match class % 6 {
        0 => 0,
        1 => (raw % 2) as usize,
        2 | 3 => (raw % 11) as usize,
        4 => (raw % 1000) as usize,
        _ => ((u64::from(raw) << 9) % (1_u64 << 40)) as usize,
    }
}

pub fn weighted_usize(max_order: usize) -> BoxedStrategy<(WDg<usize>, String)> {
    weighted_usize_from(raw_dg(max_order).boxed())
}

pub fn weighted_usize_big(max_order: usize) -> BoxedStrategy<(WDg<usize>, String)> {
    weighted_usize_from(raw_dg_big(max_order).boxed())
}

pub fn weighted_usize_big_rate(max_order: usize, ordinary: u32) -> BoxedStrategy<(WDg<usize>, String)> {
    weighted_usize_from(raw_dg_big_rate(max_order, ordinary).boxed())
}

/// "Big-M" weights: exactly one arc gets a weight around MAX / 2 (walk sums
/// still fit: every other weight is below 2^40).  Applied to one case in 16.
pub fn big_m_usize(arcs: &mut [(usize, usize, usize)], pick: u32) -> bool {
    if pick % 16 != 0 || arcs.is_empty() {
        return false;
    }
    let i = (pick as usize / 16) % arcs.len();
    arcs[i].2 = usize::MAX / 2 + (pick as usize % 5);
    true
}

pub fn big_m_isize(arcs: &mut [(usize, usize, isize)], pick: u32) -> bool {
    if pick % 16 != 0 || arcs.is_empty() || arcs.iter().any(|a| a.2 < 0) {
        return false;
    }
    let i = (pick as usize / 16) % arcs.len();
    arcs[i].2 = isize::MAX / 2 + (pick as isize % 5);
    true
}

fn weighted_usize_from(raw: BoxedStrategy<RawDg>) -> BoxedStrategy<(WDg<usize>, String)> {
    (raw, any::<u8>(), vec(any::<u32>(), 64))
        .prop_map(|(r, class, ws)| {
            let d = build_dg(&r);
            let mut arcs: Vec<(usize, usize, usize)> = d
                .arcs
                .iter()
                .enumerate()
                .map(|(i, &(u, v))| {
                    (u, v, uweight(class, ws[(i * 7 + u * 3 + v) % ws.len()]))
                })
                .collect();
            let big = big_m_usize(&mut arcs, ws[0]);
            (
                WDg {
                    order: d.order,
                    arcs,
                },
                format!("{}/w{}{}", family_name(&r), class % 6, if big { "+bigM" } else { "" }),
            )
        })
        .boxed()
}

/// isize weights.  class: 0 non-negative small, 1 potential-based (negative
/// arcs, provably no negative circuit), 2 small signed uniform (negative
/// circuits appear naturally), 3 mostly positive with a few negative,
/// 4 zero/±1.  Returns the weights and the class name.
pub fn iweights(
    d: &Dg,
    class: u8,
    ws: &[u32],
    pot: &[u16],
) -> (Vec<(usize, usize, isize)>, &'static str) {
    let pick = |i: usize, u: usize, v: usize| ws[(i * 7 + u * 3 + v) % ws.len()];
    let name;
    let arcs = match class % 6 {
        0 => {
            name = "nonneg";
            d.arcs
                .iter()
                .enumerate()
                .map(|(i, &(u, v))| (u, v, (pick(i, u, v) % 12) as isize))
                .collect()
        }
        1 | 5 => {
            name = "potential";
            d.arcs
                .iter()
                .enumerate()
                .map(|(i, &(u, v))| {
                    let c = (pick(i, u, v) % 9) as isize;
                    let hu = (pot[u % pot.len()] % 40) as isize;
                    let hv = (pot[v % pot.len()] % 40) as isize;
                    (u, v, c - hu + hv)
                })
                .collect()
        }
        2 => {
            name = "signed";
            d.arcs
                .iter()
                .enumerate()
                .map(|(i, &(u, v))| (u, v, (pick(i, u, v) % 21) as isize - 7))
                .collect()
        }
        3 => {
            name = "fewneg";
            d.arcs
                .iter()
                .enumerate()
                .map(|(i, &(u, v))| {
                    let r = pick(i, u, v);
                    let w = (r % 50) as isize;
                    (u, v, if r % 7 == 0 { -w } else { w })
                })
                .collect()
        }
        _ => {
            name = "unit";
            d.arcs
                .iter()
                .enumerate()
                .map(|(i, &(u, v))| (u, v, (pick(i, u, v) % 3) as isize - 1))
                .collect()
        }
    };
    (arcs, name)
}

pub fn weighted_isize(max_order: usize) -> BoxedStrategy<(WDg<isize>, String)> {
    weighted_isize_from(raw_dg(max_order).boxed())
}

pub fn weighted_isize_big_rate(max_order: usize, ordinary: u32) -> BoxedStrategy<(WDg<isize>, String)> {
    weighted_isize_from(raw_dg_big_rate(max_order, ordinary).boxed())
}

fn weighted_isize_from(raw: BoxedStrategy<RawDg>) -> BoxedStrategy<(WDg<isize>, String)> {
    (
        raw,
        any::<u8>(),
        vec(any::<u32>(), 64),
        vec(any::<u16>(), 16),
    )
        .prop_map(|(r, class, ws, pot)| {
            let d = build_dg(&r);
            let (mut arcs, name) = iweights(&d, class, &ws, &pot);
            let big = big_m_isize(&mut arcs, ws[0]);
            (
                WDg {
                    order: d.order,
                    arcs,
                },
                format!("{}/{}{}", family_name(&r), name, if big { "+bigM" } else { "" }),
            )
        })
        .boxed()
}

// --- non-contiguous AdjacencyMap digraphs -----------------------------------

/// Vertex-id pool for non-contiguous maps: small ids plus a few far ones.
pub const MAP_POOL: &[usize] = &[
    0, 1, 2, 3, 4, 5, 6, 7, 8, 9, 10, 11, 12, 13, 14, 37, 64, 1000, 1 << 20,
];

pub fn map_digraph() -> BoxedStrategy<MapDg> {
    (
        any::<u32>(),
        any::<u8>(),
        vec((any::<u16>(), any::<u16>()), 0..=40),
        any::<u16>(),
    )
        .prop_map(|(bits, class, pairs, len_raw)| {
            let mut vs: Vec<usize> = match class % 5 {
                // contiguous 0..k
                0 => (0..1 + (bits as usize % 8)).collect(),
                // arbitrary subset of the pool
                _ => MAP_POOL
                    .iter()
                    .enumerate()
                    .filter(|(i, _)| bits >> i & 1 == 1)
                    .map(|(_, &v)| v)
                    .collect(),
            };
            if vs.is_empty() {
                vs.push(MAP_POOL[bits as usize % MAP_POOL.len()]);
            }
            let n = vs.len();
            let mut a = BTreeSet::new();
            if n >= 2 {
                let target = idx(len_raw, pairs.len() + 1);
                for &p in pairs.iter().take(target) {
                    let (i, j) = arc_of(p, n);
                    a.insert((vs[i], vs[j]));
                }
            }
            MapDg {
                vertices: vs,
                arcs: a.into_iter().collect(),
            }
        })
        .boxed()
}

/// Vertex argument classes for total / panicking entry points.
pub fn vertex_arg(raw: u16, class: u8, order: usize) -> usize {
    match class % 10 {
        0..=6 => idx(raw, order),
        7 => order,
        8 => order + 1,
        _ => {
            if raw & 1 == 0 {
                1000
            } else {
                usize::MAX
            }
        }
    }
}

// --- greedy post-shrinking candidates (used after proptest's own shrink) ----

pub fn relabel(v: usize, removed: usize) -> Option<usize> {
    match v.cmp(&removed) {
        std::cmp::Ordering::Less => Some(v),
        std::cmp::Ordering::Equal => None,
        std::cmp::Ordering::Greater => Some(v - 1),
    }
}

/// Candidate simplifications of a weighted digraph with a vertex list that
/// must stay consistent (sources, targets…): remove a vertex, remove an arc,
/// lower a weight.  Each candidate comes with the vertex-relabelling it used.
pub fn shrink_wdg<W: Clone + PartialEq>(
    g: &WDg<W>,
    simpler_weights: impl Fn(&W) -> Vec<W>,
) -> Vec<(WDg<W>, Option<usize>)> {
    let mut out = vec![];
    if g.order > 1 {
        for k in (0..g.order).rev() {
            let arcs = g
                .arcs
                .iter()
                .filter_map(|(u, v, w)| Some((relabel(*u, k)?, relabel(*v, k)?, w.clone())))
                .collect();
            out.push((
                WDg {
                    order: g.order - 1,
                    arcs,
                },
                Some(k),
            ));
        }
    }
    for i in 0..g.arcs.len() {
        let mut arcs = g.arcs.clone();
        arcs.remove(i);
        out.push((
            WDg {
                order: g.order,
                arcs,
            },
            None,
        ));
    }
    for i in 0..g.arcs.len() {
        for w in simpler_weights(&g.arcs[i].2) {
            if w != g.arcs[i].2 {
                let mut arcs = g.arcs.clone();
                arcs[i].2 = w;
                out.push((
                    WDg {
                        order: g.order,
                        arcs,
                    },
                    None,
                ));
            }
        }
    }
    out
}

pub fn shrink_dg(g: &Dg) -> Vec<(Dg, Option<usize>)> {
    let w = WDg {
        order: g.order,
        arcs: g.arcs.iter().map(|&(u, v)| (u, v, ())).collect(),
    };
    shrink_wdg(&w, |_| vec![])
        .into_iter()
        .map(|(x, k)| {
            (
                Dg {
                    order: x.order,
                    arcs: x.arcs.iter().map(|&(u, v, ())| (u, v)).collect(),
                },
                k,
            )
        })
        .collect()
}

pub fn relabel_list(l: &[usize], removed: Option<usize>) -> Vec<usize> {
    match removed {
        None => l.to_vec(),
        Some(k) => l.iter().filter_map(|&v| relabel(v, k)).collect(),
    }
}

/// Candidate simplifications of a vertex list: drop one element.
pub fn shrink_list(l: &[usize]) -> Vec<Vec<usize>> {
    (0..l.len())
        .map(|i| {
            let mut x = l.to_vec();
            x.remove(i);
            x
        })
        .collect()
}

pub fn simpler_usize(w: &usize) -> Vec<usize> {
    let mut v = vec![0, 1, w / 2, w.saturating_sub(1)];
    v.dedup();
    v
}

pub fn simpler_isize(w: &isize) -> Vec<isize> {
    let mut v = vec![0, 1, -1, w / 2, w - w.signum()];
    v.dedup();
    v
}

pub fn shrink_map(g: &MapDg) -> Vec<MapDg> {
    let mut out = vec![];
    if g.vertices.len() > 1 {
        for i in (0..g.vertices.len()).rev() {
            let x = g.vertices[i];
            let mut vertices = g.vertices.clone();
            vertices.remove(i);
            out.push(MapDg {
                vertices,
                arcs: g.arcs.iter().copied().filter(|&(u, v)| u != x && v != x).collect(),
            });
        }
    }
    for i in 0..g.arcs.len() {
        let mut arcs = g.arcs.clone();
        arcs.remove(i);
        out.push(MapDg {
            vertices: g.vertices.clone(),
            arcs,
        });
    }
    out
}

// --- huge digraphs (low-rate legs that reach past the usual size caps) --------

pub const HUGE_ORDERS: &[usize] = &[
    257, 258, 300, 511, 512, 513, 601, 1023, 1024, 1025, 1649, 1700, 2047, 2048, 2049, 2500, 3000, 3001,
];
pub const HUGE_FAMILIES: &[&str] = &[
    "sparse", "path", "rpath", "circuit", "cycle", "star", "wheel", "outtree", "intree", "wide-row", "last-rows", "complete",
];

/// Digraphs of several hundred to a few thousand vertices with O(n) arcs
/// (plus `complete` below 300 vertices and rows of exactly 255/256/257
/// out-neighbours): size thresholds such as "more than 256 neighbours in a
/// row", "order >= 512", "order above 1648" or "more rows than 1024" are
/// typical places for chunking and inline-buffer mistakes.
pub fn huge_dg() -> BoxedStrategy<(Dg, String)> {
    (
        prop_oneof![
            3 => proptest::sample::select(HUGE_ORDERS.to_vec()),
            2 => 200..=3100_usize,
        ],
        0..HUGE_FAMILIES.len(),
        vec((any::<u16>(), any::<u16>()), 600),
        any::<u16>(),
    )
        .prop_map(|(n, fam, pairs, pick)| {
            let name = HUGE_FAMILIES[fam];
            let mut a: BTreeSet<(usize, usize)> = BTreeSet::new();
            let far = |raw: u16| ((raw as usize) * n) >> 16;
            match name {
                "path" => (0..n - 1).for_each(|i| {
                    a.insert((i, i + 1));
                }),
                "rpath" => (0..n - 1).for_each(|i| {
                    a.insert((i + 1, i));
                }),
                "circuit" => (0..n).for_each(|i| {
                    a.insert((i, (i + 1) % n));
                }),
                "cycle" => (0..n).for_each(|i| {
                    a.insert((i, (i + 1) % n));
                    a.insert(((i + 1) % n, i));
                }),
                "star" | "wheel" => {
                    for i in 1..n {
                        a.insert((0, i));
                        a.insert((i, 0));
                    }
                    if name == "wheel" {
                        for i in 1..n {
                            let j = if i == n - 1 { 1 } else { i + 1 };
                            a.insert((i, j));
                            a.insert((j, i));
                        }
                    }
                }
                "outtree" => (1..n).for_each(|v| {
                    a.insert((idx(pairs[v % pairs.len()].0, v), v));
                }),
                "intree" => (1..n).for_each(|v| {
                    a.insert((v, idx(pairs[v % pairs.len()].0, v)));
                }),
                "wide-row" => {
                    // one row with exactly 255 / 256 / 257 out-neighbours, plus noise
                    let u = far(pick);
                    let k = [255, 256, 257][pick as usize % 3].min(n - 1);
                    let mut added = 0;
                    let mut v = far(pick.rotate_left(3));
                    while added < k {
                        if v != u && a.insert((u, v)) {
                            added += 1;
                        }
                        v = (v + 1) % n;
                    }
                    for &p in pairs.iter().take(100) {
                        a.insert(arc_of(p, n));
                    }
                }
                "last-rows" => {
                    // arcs leaving and entering the last few rows (dropped-tail mistakes)
                    for (i, &p) in pairs.iter().take(60).enumerate() {
                        let u = n - 1 - (i % 5);
                        let v = far(p.0);
                        if u != v {
                            a.insert((u, v));
                            a.insert((v, n - 1 - ((i + 1) % 3)));
                        }
                    }
                    a.retain(|&(u, v)| u != v);
                }
                "complete" if n <= 300 => {
                    for u in 0..n {
                        for v in 0..n {
                            if u != v {
                                a.insert((u, v));
                            }
                        }
                    }
                }
                _ => {
                    let target = 100 + idx(pick, pairs.len() - 100);
                    for &p in pairs.iter().take(target) {
                        a.insert(arc_of(p, n));
                    }
                    // always touch the last row and the last column
                    a.insert((n - 1, far(pick)));
                    a.insert((far(pick.rotate_left(5)), n - 1));
                    a.retain(|&(u, v)| u != v);
                }
            }
            (
                Dg {
                    order: n,
                    arcs: a.into_iter().collect(),
                },
                format!("huge:{name}"),
            )
        })
        .boxed()
}

/// A sample of vertex ids for checks that cannot afford all pairs: the first
/// and last few, both sides of 64-bit / 256 / 1024 boundaries, and a few
/// pseudo-random ones.
pub fn sample_ids(n: usize, salt: usize) -> Vec<usize> {
    let mut s: BTreeSet<usize> = BTreeSet::new();
    for x in [0, 1, 2, 63, 64, 65, 127, 128, 255, 256, 257, 511, 512, 1023, 1024, 1025, 2047, 2048] {
        if x < n {
            s.insert(x);
        }
    }
    for d in 1..=4 {
        if n >= d {
            s.insert(n - d);
        }
    }
    let mut x = salt.wrapping_mul(0x9E37_79B9).wrapping_add(12345);
    for _ in 0..12 {
        x = x.wrapping_mul(6_364_136_223_846_793_005).wrapping_add(1_442_695_040_888_963_407);
        s.insert((x >> 33) % n);
    }
    s.into_iter().collect()
}


/// Dense near misses at orders where threads, tiles and words matter: the
/// complete digraph on n vertices minus one arc, minus one pair (both arcs),
/// or a tournament with one pair doubled and another emptied; the special
/// pair touches a row from {first, last, middle, (n-1)/2, chunk boundaries}.
pub fn dense_near_miss() -> BoxedStrategy<(Dg, String)> {
    (
        prop_oneof![
            3 => proptest::sample::select(vec![127_usize, 128, 129, 130, 131, 191, 192, 193, 255, 256, 257]),
            1 => 128..=400_usize,
        ],
        0..4_u8,
        any::<u16>(),
        any::<u16>(),
        1..=16_usize,
        vec(any::<u16>(), 64),
    )
        .prop_map(|(n, kind, ru, rv, k, bits)| {
            let chunk = n.div_ceil(k);
            let specials = [0, 1, n / 2, (n - 1) / 2, n / 2 + 1, n - 2, n - 1, chunk.min(n - 1), chunk.saturating_sub(1), (2 * chunk).min(n - 1), n - 1 - (n % chunk.max(1))];
            let u = if ru % 4 != 0 { specials[ru as usize % specials.len()] } else { idx(ru, n) };
            let mut v = idx(rv, n);
            if v == u {
                v = (u + 1) % n;
            }
            let mut a: BTreeSet<(usize, usize)> = BTreeSet::new();
            let name;
            match kind {
                0 | 1 => {
                    for x in 0..n {
                        for y in 0..n {
                            if x != y {
                                a.insert((x, y));
                            }
                        }
                    }
                    a.remove(&(u, v));
                    if kind == 1 {
                        a.remove(&(v, u));
                        name = "complete-minus-pair";
                    } else {
                        name = "complete-minus-arc";
                    }
                }
                2 => {
                    // semicomplete: a tournament plus many reverse arcs, one pair emptied
                    for x in 0..n {
                        for y in x + 1..n {
                            let b = bits[(x * 7 + y) % bits.len()] >> ((x + y) % 13);
                            if b & 1 == 1 {
                                a.insert((x, y));
                            } else {
                                a.insert((y, x));
                            }
                            if b & 6 != 0 {
                                a.insert((x, y));
                                a.insert((y, x));
                            }
                        }
                    }
                    a.remove(&(u, v));
                    a.remove(&(v, u));
                    name = "semicomplete-minus-pair";
                }
                _ => {
                    for x in 0..n {
                        for y in x + 1..n {
                            if bits[(x * 5 + y) % bits.len()] >> ((x + y) % 11) & 1 == 1 {
                                a.insert((x, y));
                            } else {
                                a.insert((y, x));
                            }
                        }
                    }
                    // size-preserving non-tournament: (u,v) doubled, another pair emptied
                    a.insert((u, v));
                    a.insert((v, u));
                    let (p, q) = ((u + 2) % n, (v + 3) % n);
                    if p != q && (p, q) != (u, v) && (p, q) != (v, u) {
                        a.remove(&(p, q));
                        a.remove(&(q, p));
                    }
                    name = "tournament-swap";
                }
            }
            (
                Dg {
                    order: n,
                    arcs: a.into_iter().collect(),
                },
                format!("dense:{name}"),
            )
        })
        .boxed()
}

/// Restricts a digraph to its first `cap` vertices.
pub fn truncate_dg(mut g: Dg, cap: usize) -> Dg {
    if g.order > cap {
        g.order = cap;
        g.arcs.retain(|&(u, v)| u < cap && v < cap);
    }
    g
}

pub fn huge_wusize(cap: usize) -> BoxedStrategy<(WDg<usize>, String)> {
    (huge_dg(), any::<u8>(), vec(any::<u32>(), 64))
        .prop_map(move |((d, name), class, ws)| {
            let d = truncate_dg(d, cap);
            let mut arcs: Vec<(usize, usize, usize)> = d
                .arcs
                .iter()
                .enumerate()
                .map(|(i, &(u, v))| (u, v, uweight(class, ws[(i * 7 + u * 3 + v) % ws.len()])))
                .collect();
            let big = big_m_usize(&mut arcs, ws[0]);
            (WDg { order: d.order, arcs }, format!("{name}/w{}{}", class % 6, if big { "+bigM" } else { "" }))
        })
        .boxed()
}

pub fn huge_wisize(cap: usize) -> BoxedStrategy<(WDg<isize>, String)> {
    (huge_dg(), any::<u8>(), vec(any::<u32>(), 64), vec(any::<u16>(), 16))
        .prop_map(move |((d, name), class, ws, pot)| {
            let d = truncate_dg(d, cap);
            let (mut arcs, wname) = iweights(&d, class, &ws, &pot);
            let big = big_m_isize(&mut arcs, ws[0]);
            (WDg { order: d.order, arcs }, format!("{name}/{wname}{}", if big { "+bigM" } else { "" }))
        })
        .boxed()
}


// ---------------------------------------------------------------------------
// Iterators with chosen, honest size hints
// ---------------------------------------------------------------------------

/// Wraps an iterator of known length and reports a chosen `size_hint` that
/// stays honest (lower <= remaining <= upper) after every step.
#[derive(Clone)]
pub struct Hinted<I> {
    inner: I,
    lo: usize,
    hi: Option<usize>,
}

impl<I: Iterator> Iterator for Hinted<I> {
    type Item = I::Item;

    fn next(&mut self) -> Option<I::Item> {
        self.lo = self.lo.saturating_sub(1);
        self.hi = self.hi.map(|h| h.saturating_sub(1));
        self.inner.next()
    }

    fn size_hint(&self) -> (usize, Option<usize>) {
        (self.lo, self.hi)
    }
}

/// The honest hints tried for a sequence of `n` items: exact, no information,
/// a positive lower bound without an upper bound, loose on both sides.
pub fn honest_hints(n: usize) -> Vec<(usize, Option<usize>)> {
    let mut v = vec![
        (n, Some(n)),
        (0, None),
        (n.min(1), None),
        (n / 2, None),
        (n.saturating_sub(1), None),
        (n, None),
        (0, Some(n)),
        (0, Some(n + 5)),
        (n / 2, Some(2 * n + 1)),
        (n.saturating_sub(1), Some(n + 1)),
    ];
    v.sort();
    v.dedup();
    v
}

pub fn hinted<T>(items: Vec<T>, hint: (usize, Option<usize>)) -> Hinted<std::vec::IntoIter<T>> {
    assert!(hint.0 <= items.len() && hint.1.map_or(true, |h| h >= items.len()), "harness: dishonest hint");
    Hinted { inner: items.into_iter(), lo: hint.0, hi: hint.1 }
}

/// As `hinted`, but the hint may lie (memory-safety checks only).
pub fn hinted_any<T>(items: Vec<T>, hint: (usize, Option<usize>)) -> Hinted<std::vec::IntoIter<T>> {
    Hinted { inner: items.into_iter(), lo: hint.0, hi: hint.1 }
}

/// One honest hint shape for `len` items, chosen by `salt`.
pub fn hint_pick(len: usize, salt: usize) -> (usize, Option<usize>) {
    let h = honest_hints(len);
    h[salt % h.len()]
}

/// The path 0 -> 1 -> ... -> n-1 (a second digraph of another order for
/// clone_from targets).
pub fn path_dg(n: usize) -> Dg {
    Dg { order: n.max(1), arcs: (1..n.max(1)).map(|v| (v - 1, v)).collect() }
}

/// A source iterator whose clones share one cursor (a draining iterator over a
/// queue behind a reference): legal for `T: Iterator + Clone`, and each source
/// is still yielded exactly once overall.
#[derive(Clone)]
pub struct SharedCursor<'a> {
    queue: &'a std::cell::RefCell<std::collections::VecDeque<usize>>,
}

impl Iterator for SharedCursor<'_> {
    type Item = usize;

    fn next(&mut self) -> Option<usize> {
        self.queue.borrow_mut().pop_front()
    }
}

pub fn shared_queue(items: &[usize]) -> std::cell::RefCell<std::collections::VecDeque<usize>> {
    std::cell::RefCell::new(items.iter().copied().collect())
}

pub fn shared_cursor(queue: &std::cell::RefCell<std::collections::VecDeque<usize>>) -> SharedCursor<'_> {
    SharedCursor { queue }
}
