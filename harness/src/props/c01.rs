//! C01 — every representation tracks the abstract digraph under any mutation
//! history.

use crate::{
    ensure,
    gen,
    model::{closed_form, Model},
    runner::{guarded, Build, Leg, LegKind, Obs, Prop, Tier, Verdict},
};
use graaf::{
    AddArc, AddArcWeighted, AdjacencyList, AdjacencyListWeighted, AdjacencyMap, AdjacencyMatrix,
    ArcWeight, Arcs, ArcsWeighted, Biclique, Circuit, Complete, Cycle, EdgeList, Empty, ErdosRenyi,
    FilterVertices, HasArc, Order, Path, RandomRecursiveTree, RandomTournament, RemoveArc, Size,
    Star, Vertices, Wheel,
};
use proptest::{collection::vec, prelude::*};
use serde::{Deserialize, Serialize};
use std::collections::{BTreeMap, BTreeSet};

#[derive(Clone, Debug, Serialize, Deserialize, PartialEq)]
pub enum Op {
    Add(usize, usize, i64),
    Remove(usize, usize),
    Toggle(usize, usize),
}

#[derive(Clone, Debug, Serialize, Deserialize)]
pub struct Start {
    /// 0 empty+adds, 1 conversion from another representation, 2 From<rows or
    /// arcs iterator>, 3 deterministic generator, 4 seeded random generator
    pub via: u8,
    pub order: usize,
    pub arcs: Vec<(usize, usize)>,
    pub gen_kind: u8,
    pub seed: u64,
}

#[derive(Clone, Debug, Serialize, Deserialize)]
pub struct Case {
    /// 0 AdjacencyList, 1 AdjacencyMap, 2 AdjacencyMatrix, 3 EdgeList,
    /// 4 AdjacencyListWeighted<usize>, 5 AdjacencyListWeighted<isize>
    pub repr: u8,
    pub start: Start,
    pub ops: Vec<Op>,
}

pub const REPRS: [&str; 6] = [
    "AdjacencyList",
    "AdjacencyMap",
    "AdjacencyMatrix",
    "EdgeList",
    "AdjacencyListWeighted<usize>",
    "AdjacencyListWeighted<isize>",
];

const GEN_KINDS: [&str; 8] = ["empty", "complete", "circuit", "cycle", "path", "star", "wheel", "biclique"];

pub type M = Model<i128>;

/// What a subject shows to the outside.
#[derive(Clone, Debug, PartialEq, Eq)]
pub struct Seen {
    pub order: usize,
    pub size: usize,
    pub vertices: Vec<usize>,
    pub arcs: Vec<(usize, usize)>,
    pub weighted: Vec<(usize, usize, i128)>,
}

pub fn expected(m: &M) -> Seen {
    Seen {
        order: m.order(),
        size: m.size(),
        vertices: m.vertices(),
        arcs: m.arcs(),
        weighted: m.arcs_w(),
    }
}

pub trait Subject: Clone + Eq + std::fmt::Debug {
    const FIXED: bool;
    const WEIGHTED: bool;
    const TOGGLE: bool;
    fn seen(&self) -> Seen;
    fn has(&self, u: usize, v: usize) -> bool;
    fn weight(&self, u: usize, v: usize) -> Option<i128>;
    fn add(&mut self, u: usize, v: usize, w: i64);
    fn remove(&mut self, u: usize, v: usize) -> bool;
    fn toggle(&mut self, _u: usize, _v: usize) {}
    /// complement() where the representation has one
    fn complemented(&self) -> Option<Self> {
        None
    }
    /// union() where the representation has one
    fn united(&self, _other: &Self) -> Option<Self> {
        None
    }
    fn start(s: &Start) -> (Self, Option<M>);
    fn fresh(m: &M) -> Self;
    /// arcs() and vertices() of the final digraph under every way of consuming them
    fn listing_protocol(&self, name: &str, arcs: &[(usize, usize)], vertices: &[usize]) -> Verdict;
}

fn start_model(order: usize, arcs: &[(usize, usize)]) -> M {
    Model::from_arcs(order, arcs.iter().map(|&(u, v)| (u, v, 1_i128)))
}

macro_rules! unweighted_subject {
    ($t:ty, $fixed:expr, $toggle:expr, $from_iter:expr, $other_a:ty, $other_b:ty) => {
        impl Subject for $t {
            const FIXED: bool = $fixed;
            const WEIGHTED: bool = false;
            const TOGGLE: bool = $toggle;
            fn seen(&self) -> Seen {
                let arcs: Vec<(usize, usize)> = self.arcs().collect();
                Seen {
                    order: self.order(),
                    size: self.size(),
                    vertices: self.vertices().collect(),
                    weighted: arcs.iter().map(|&(u, v)| (u, v, 1)).collect(),
                    arcs,
                }
            }
            fn listing_protocol(&self, name: &str, arcs: &[(usize, usize)], vertices: &[usize]) -> Verdict {
                crate::props::c02::protocol(&format!("{name}: arcs() after the history"), || self.arcs(), arcs)?;
                crate::props::c02::protocol(&format!("{name}: vertices() after the history"), || self.vertices(), vertices)
            }
            fn has(&self, u: usize, v: usize) -> bool {
                self.has_arc(u, v)
            }
            fn weight(&self, u: usize, v: usize) -> Option<i128> {
                self.has_arc(u, v).then_some(1)
            }
            fn add(&mut self, u: usize, v: usize, _w: i64) {
                self.add_arc(u, v);
            }
            fn remove(&mut self, u: usize, v: usize) -> bool {
                self.remove_arc(u, v)
            }
            fn toggle(&mut self, u: usize, v: usize) {
                toggle_impl(self, u, v);
            }
            fn complemented(&self) -> Option<Self> {
                Some(graaf::Complement::complement(self))
            }
            fn united(&self, other: &Self) -> Option<Self> {
                Some(graaf::Union::union(self, other))
            }
            fn start(s: &Start) -> (Self, Option<M>) {
                if let Some(x) = <$t as StartExtra>::start_extra(s) {
                    return x;
                }
                // via 7 / 8 / 9: the start digraph is the RESULT of an operation
                // (complement, converse, union with the converse) on generated arcs
                if (7..=9).contains(&s.via) {
                    let n = s.order.max(1);
                    let mut base = <$t>::empty(n);
                    let mut bm = start_model(n, &s.arcs);
                    for &(u, v) in &s.arcs {
                        base.add_arc(u, v);
                    }
                    let g = match s.via {
                        7 => graaf::Complement::complement(&base),
                        8 => graaf::Converse::converse(&base),
                        _ => graaf::Union::union(&base, &graaf::Converse::converse(&base)),
                    };
                    let arcs: Vec<(usize, usize)> = match s.via {
                        7 => (0..n).flat_map(|u| (0..n).map(move |v| (u, v))).filter(|&(u, v)| u != v && !bm.has(u, v)).collect(),
                        8 => bm.a.keys().map(|&(u, v)| (v, u)).collect(),
                        _ => bm.a.keys().flat_map(|&(u, v)| [(u, v), (v, u)]).collect(),
                    };
                    bm = start_model(n, &arcs);
                    return (g, Some(bm));
                }
                let n = s.order.max(1);
                let plain = |n: usize, arcs: &[(usize, usize)]| {
                    let mut g = <$t>::empty(n);
                    for &(u, v) in arcs {
                        g.add_arc(u, v);
                    }
                    g
                };
                match if s.via >= 5 { 0 } else { s.via } {
                    1 => {
                        if s.seed % 2 == 0 {
                            let mut o = <$other_a>::empty(n);
                            for &(u, v) in &s.arcs {
                                o.add_arc(u, v);
                            }
                            (<$t>::from(o), Some(start_model(n, &s.arcs)))
                        } else {
                            let mut o = <$other_b>::empty(n);
                            for &(u, v) in &s.arcs {
                                o.add_arc(u, v);
                            }
                            (<$t>::from(o), Some(start_model(n, &s.arcs)))
                        }
                    }
                    2 => {
                        let f: fn(usize, &[(usize, usize)]) -> Option<($t, usize)> = $from_iter;
                        match f(n, &s.arcs) {
                            Some((g, order)) => (g, Some(start_model(order, &s.arcs))),
                            None => (plain(n, &s.arcs), Some(start_model(n, &s.arcs))),
                        }
                    }
                    3 => {
                        let kind = GEN_KINDS[s.gen_kind as usize % GEN_KINDS.len()];
                        let n = if kind == "wheel" { n.max(4) } else { n };
                        let m2 = 1 + (s.seed % 4) as usize;
                        let g = match kind {
                            "empty" => <$t>::empty(n),
                            "complete" => <$t>::complete(n),
                            "circuit" => <$t>::circuit(n),
                            "cycle" => <$t>::cycle(n),
                            "path" => <$t>::path(n),
                            "star" => <$t>::star(n),
                            "wheel" => <$t>::wheel(n),
                            _ => <$t>::biclique(n, m2),
                        };
                        let (order, arcs) = closed_form(kind, n, m2);
                        (g, Some(start_model(order, &arcs)))
                    }
                    4 => {
                        let g = match s.gen_kind % 3 {
                            0 => <$t>::erdos_renyi(n, (s.seed % 101) as f64 / 100.0, s.seed),
                            1 => <$t>::random_tournament(n, s.seed),
                            _ => <$t>::random_recursive_tree(n, s.seed),
                        };
                        (g, None)
                    }
                    _ => (plain(n, &s.arcs), Some(start_model(n, &s.arcs))),
                }
            }
            fn fresh(m: &M) -> Self {
                fresh_unweighted::<$t>(m)
            }
        }
    };
}

/// Start digraphs only one representation can have.
trait StartExtra: Sized {
    fn start_extra(_s: &Start) -> Option<(Self, Option<M>)> {
        None
    }
}
impl StartExtra for AdjacencyList {}
impl StartExtra for AdjacencyMatrix {}
impl StartExtra for EdgeList {}
impl StartExtra for AdjacencyMap {
    /// via 5: the subdigraph induced by the vertices >= k of a digraph on 0..n
    /// (`filter_vertices`): a vertex set that is a contiguous run NOT starting
    /// at 0 — or, for via 6, every other vertex.
    fn start_extra(s: &Start) -> Option<(Self, Option<M>)> {
        if s.via != 5 && s.via != 6 && s.via != 10 {
            return None;
        }
        let n = s.order.max(1);
        let mut g = AdjacencyMap::empty(n);
        for &(u, v) in &s.arcs {
            g.add_arc(u, v);
        }
        if s.via == 10 {
            // via 10: filter_vertices with a stateful predicate (a budget of
            // `true` answers).  Which vertices it selects is the predicate's
            // business; the result must be a valid digraph inside the operand,
            // and the history then continues from what is observed.
            let budget = 1 + (s.seed as usize) % n;
            let calls = std::cell::Cell::new(0_usize);
            let f = g.filter_vertices(|_| {
                calls.set(calls.get() + 1);
                calls.get() <= budget
            });
            let vs: std::collections::BTreeSet<usize> = f.vertices().collect();
            let mut m: M = Model { v: vs.clone(), a: std::collections::BTreeMap::new() };
            for (u, v) in f.arcs() {
                assert!(
                    vs.contains(&u) && vs.contains(&v) && g.has_arc(u, v),
                    "filter_vertices with a stateful predicate (first {budget} calls true) returned an invalid digraph: arc ({u}, {v}) with vertex set {vs:?}"
                );
                m.a.insert((u, v), 1);
            }
            assert!(vs.iter().all(|&v| v < n), "filter_vertices with a stateful predicate returned a vertex outside the operand: {vs:?}");
            return Some((f, Some(m)));
        }
        let k = (s.seed as usize) % n;
        let keep = |u: usize| if s.via == 5 { u >= k } else { u % 2 == k % 2 };
        let g = g.filter_vertices(keep);
        let mut m: M = Model {
            v: (0..n).filter(|&u| keep(u)).collect(),
            a: std::collections::BTreeMap::new(),
        };
        for &(u, v) in &s.arcs {
            if keep(u) && keep(v) {
                m.a.insert((u, v), 1);
            }
        }
        Some((g, Some(m)))
    }
}

trait MaybeToggle {
    fn toggle_it(&mut self, _u: usize, _v: usize) {}
}
impl MaybeToggle for AdjacencyList {}
impl MaybeToggle for AdjacencyMap {}
impl MaybeToggle for EdgeList {}
impl MaybeToggle for AdjacencyMatrix {
    fn toggle_it(&mut self, u: usize, v: usize) {
        self.toggle(u, v);
    }
}
fn toggle_impl<T: MaybeToggle>(t: &mut T, u: usize, v: usize) {
    t.toggle_it(u, v);
}

trait FreshUnweighted: Sized {
    fn fresh_from(m: &M) -> Self;
}
fn fresh_unweighted<T: FreshUnweighted>(m: &M) -> T {
    T::fresh_from(m)
}
macro_rules! fresh_fixed {
    ($t:ty) => {
        impl FreshUnweighted for $t {
            fn fresh_from(m: &M) -> Self {
                let mut g = <$t>::empty(m.order());
                // insert in descending order: a different history, same digraph
                for &(u, v) in m.a.keys().rev() {
                    g.add_arc(u, v);
                }
                g
            }
        }
    };
}
fresh_fixed!(AdjacencyList);
fresh_fixed!(AdjacencyMatrix);
fresh_fixed!(EdgeList);
impl FreshUnweighted for AdjacencyMap {
    fn fresh_from(m: &M) -> Self {
        let mut g = AdjacencyMap::empty(1);
        for &v in m.v.iter().rev() {
            if v != 0 {
                g.add_arc(0, v);
                let _ = g.remove_arc(0, v);
            }
        }
        for &(u, v) in m.a.keys().rev() {
            g.add_arc(u, v);
        }
        if !m.v.contains(&0) {
            g = g.filter_vertices(|v| m.v.contains(&v));
        }
        g
    }
}

fn rows_of(n: usize, arcs: &[(usize, usize)]) -> Vec<BTreeSet<usize>> {
    let mut rows = vec![BTreeSet::new(); n];
    for &(u, v) in arcs {
        rows[u].insert(v);
    }
    rows
}

unweighted_subject!(
    AdjacencyList,
    true,
    false,
    |n, arcs| Some((AdjacencyList::from(rows_of(n, arcs)), n)),
    AdjacencyMatrix,
    EdgeList
);
unweighted_subject!(
    AdjacencyMap,
    false,
    false,
    |n, arcs| Some((AdjacencyMap::from(rows_of(n, arcs)), n)),
    AdjacencyList,
    AdjacencyMatrix
);
unweighted_subject!(
    AdjacencyMatrix,
    true,
    true,
    |_n, arcs| {
        if arcs.is_empty() {
            return None;
        }
        let order = arcs.iter().map(|&(u, v)| u.max(v)).max().unwrap() + 1;
        Some((AdjacencyMatrix::from(arcs.to_vec()), order))
    },
    AdjacencyMap,
    EdgeList
);
unweighted_subject!(
    EdgeList,
    true,
    false,
    |_n, arcs| {
        if arcs.is_empty() {
            return None;
        }
        let order = arcs.iter().map(|&(u, v)| u.max(v)).max().unwrap() + 1;
        Some((EdgeList::from(arcs.to_vec()), order))
    },
    AdjacencyList,
    AdjacencyMap
);

pub trait W: Copy + Clone + Eq + std::fmt::Debug + 'static {
    fn from_i64(x: i64) -> Self;
    fn wide(self) -> i128;
}
impl W for usize {
    fn from_i64(x: i64) -> Self {
        x as u64 as usize
    }
    fn wide(self) -> i128 {
        self as i128
    }
}
impl W for isize {
    fn from_i64(x: i64) -> Self {
        x as isize
    }
    fn wide(self) -> i128 {
        self as i128
    }
}

macro_rules! weighted_subject {
    ($w:ty) => {
        impl Subject for AdjacencyListWeighted<$w> {
            const FIXED: bool = true;
            const WEIGHTED: bool = true;
            const TOGGLE: bool = false;
            fn seen(&self) -> Seen {
                Seen {
                    order: self.order(),
                    size: self.size(),
                    vertices: self.vertices().collect(),
                    arcs: self.arcs().collect(),
                    weighted: self.arcs_weighted().map(|(u, v, w)| (u, v, w.wide())).collect(),
                }
            }
            fn listing_protocol(&self, name: &str, arcs: &[(usize, usize)], vertices: &[usize]) -> Verdict {
                crate::props::c02::protocol(&format!("{name}: arcs() after the history"), || self.arcs(), arcs)?;
                crate::props::c02::protocol(&format!("{name}: vertices() after the history"), || self.vertices(), vertices)
            }
            fn has(&self, u: usize, v: usize) -> bool {
                self.has_arc(u, v)
            }
            fn weight(&self, u: usize, v: usize) -> Option<i128> {
                self.arc_weight(u, v).map(|w| w.wide())
            }
            fn add(&mut self, u: usize, v: usize, w: i64) {
                self.add_arc_weighted(u, v, <$w as W>::from_i64(w));
            }
            fn remove(&mut self, u: usize, v: usize) -> bool {
                self.remove_arc(u, v)
            }
            fn start(s: &Start) -> (Self, Option<M>) {
                let n = s.order.max(1);
                let wt = |i: usize| <$w as W>::from_i64((s.seed as i64).wrapping_mul(i as i64 + 1) % 1000);
                match s.via % 5 {
                    1 => {
                        // conversion from an unweighted representation: weight 1
                        let m = start_model(n, &s.arcs);
                        let g = match s.seed % 4 {
                            0 => {
                                let mut o = AdjacencyList::empty(n);
                                s.arcs.iter().for_each(|&(u, v)| o.add_arc(u, v));
                                Self::from(o)
                            }
                            1 => {
                                let mut o = AdjacencyMap::empty(n);
                                s.arcs.iter().for_each(|&(u, v)| o.add_arc(u, v));
                                Self::from(o)
                            }
                            2 => {
                                let mut o = AdjacencyMatrix::empty(n);
                                s.arcs.iter().for_each(|&(u, v)| o.add_arc(u, v));
                                Self::from(o)
                            }
                            _ => {
                                let mut o = EdgeList::empty(n);
                                s.arcs.iter().for_each(|&(u, v)| o.add_arc(u, v));
                                Self::from(o)
                            }
                        };
                        (g, Some(m))
                    }
                    2 => {
                        let mut rows: Vec<BTreeMap<usize, $w>> = vec![BTreeMap::new(); n];
                        let mut m: M = Model::contiguous(n);
                        for (i, &(u, v)) in s.arcs.iter().enumerate() {
                            rows[u].insert(v, wt(i));
                            m.a.insert((u, v), wt(i).wide());
                        }
                        (Self::from(rows), Some(m))
                    }
                    _ => {
                        let mut g = Self::empty(n);
                        let mut m: M = Model::contiguous(n);
                        for (i, &(u, v)) in s.arcs.iter().enumerate() {
                            g.add_arc_weighted(u, v, wt(i));
                            m.a.insert((u, v), wt(i).wide());
                        }
                        (g, Some(m))
                    }
                }
            }
            fn fresh(m: &M) -> Self {
                let mut g = Self::empty(m.order());
                for (&(u, v), &w) in m.a.iter().rev() {
                    // stale weight first, then the real one: re-adding replaces
                    g.add_arc_weighted(u, v, <$w as W>::from_i64(7));
                    g.add_arc_weighted(u, v, w as $w);
                }
                g
            }
        }
    };
}
weighted_subject!(usize);
weighted_subject!(isize);

/// Compares everything observable with the model.
pub fn compare<S: Subject>(g: &S, m: &M, full_pairs: bool, what: &str) -> Verdict {
    let seen = g.seen();
    let mut want = expected(m);
    if !S::WEIGHTED {
        want.weighted.iter_mut().for_each(|a| a.2 = 1);
    }
    ensure!(
        seen == want,
        "{what}: observable state diverges from the abstract digraph.\n   observed: {seen:?}\n   expected: {want:?}"
    );
    for w in seen.arcs.windows(2) {
        ensure!(w[0] < w[1], "{what}: arcs() is not strictly ascending: {:?}", seen.arcs);
    }
    for w in seen.vertices.windows(2) {
        ensure!(w[0] < w[1], "{what}: vertices() is not strictly ascending: {:?}", seen.vertices);
    }
    for &(u, v) in &seen.arcs {
        ensure!(u != v, "{what}: self-loop {u} -> {v} is observable");
        ensure!(
            m.v.contains(&u) && m.v.contains(&v),
            "{what}: arc {u} -> {v} has an endpoint outside the vertex set"
        );
    }
    if full_pairs {
        let all = m.vertices();
        let mut ids: Vec<usize> = if all.len() > 200 {
            gen::sample_ids(all.len(), m.size()).into_iter().map(|i| all[i]).collect()
        } else {
            all
        };
        let mut extra = m.v.iter().next_back().map_or(0, |x| x + 1);
        ids.push(extra);
        extra += 1;
        ids.push(extra);
        for &u in &ids {
            for &v in &ids {
                ensure!(
                    g.has(u, v) == m.has(u, v),
                    "{what}: has_arc({u}, {v}) = {} but the abstract digraph says {}",
                    g.has(u, v),
                    m.has(u, v)
                );
                let want_w = m.a.get(&(u, v)).map(|&w| if S::WEIGHTED { w } else { 1 });
                ensure!(
                    g.weight(u, v) == want_w,
                    "{what}: weight of ({u}, {v}) reads {:?}, expected {want_w:?}",
                    g.weight(u, v)
                );
            }
        }
    }
    Ok(())
}

fn validate_observed(seen: &Seen, what: &str) -> Result<M, String> {
    ensure!(seen.order >= 1, "{what}: order 0");
    ensure!(
        seen.vertices == (0..seen.order).collect::<Vec<_>>(),
        "{what}: vertices() = {:?} for order {}",
        seen.vertices,
        seen.order
    );
    let mut m: M = Model::contiguous(seen.order);
    for &(u, v, w) in &seen.weighted {
        ensure!(u != v && u < seen.order && v < seen.order, "{what}: invalid arc ({u}, {v})");
        ensure!(m.a.insert((u, v), w).is_none(), "{what}: arc ({u}, {v}) listed twice");
    }
    Ok(m)
}

pub struct Stats {
    pub removed_present_after_add: bool,
    pub rejected_not_last: bool,
    pub rejected: usize,
    pub toggles: usize,
}

pub fn run_history<S: Subject>(c: &Case, name: &str) -> Result<Stats, String> {
    let (mut g, model) = guarded(|| S::start(&c.start))
        .map_err(|m| format!("{name}: constructing the start digraph {:?} panicked: {m}", c.start))?;
    let mut m = match model {
        Some(m) => m,
        None => validate_observed(&g.seen(), &format!("{name} start (seeded generator)"))?,
    };
    compare(&g, &m, true, &format!("{name} start digraph (via {})", c.start.via))?;
    let small = m.order() <= 26;
    let mut stats = Stats {
        removed_present_after_add: false,
        rejected_not_last: false,
        rejected: 0,
        toggles: 0,
    };
    let mut added = false;
    for (i, op) in c.ops.iter().enumerate() {
        let what = format!("{name} after step {i} {op:?}");
        match *op {
            Op::Add(u, v, w) => {
                let reject = u == v || (S::FIXED && (!m.v.contains(&u) || !m.v.contains(&v)));
                let before = g.clone();
                let r = guarded(|| g.add(u, v, w));
                if reject {
                    ensure!(
                        r.is_err(),
                        "{what}: the call must be rejected (self-loop or endpoint outside the digraph) but it returned normally"
                    );
                    ensure!(g == before, "{what}: a rejected call changed the digraph");
                    stats.rejected += 1;
                    if i + 1 < c.ops.len() {
                        stats.rejected_not_last = true;
                    }
                } else {
                    if let Err(p) = r {
                        return Err(format!("{what}: a valid call panicked: {p}"));
                    }
                    m.v.insert(u);
                    m.v.insert(v);
                    let wt = if S::WEIGHTED {
                        // the subject's own conversion decides the stored value
                        g.weight(u, v).unwrap_or(i128::MIN)
                    } else {
                        1
                    };
                    if S::WEIGHTED {
                        let want = if name.contains("usize") {
                            (w as u64) as i128
                        } else {
                            w as i128
                        };
                        ensure!(wt == want, "{what}: stored weight reads {wt}, the call passed {want}");
                    }
                    m.a.insert((u, v), wt);
                    added = true;
                }
            }
            Op::Remove(u, v) => {
                let present = m.has(u, v);
                let r = guarded(|| g.remove(u, v));
                match r {
                    Err(p) => return Err(format!("{what}: remove_arc is total but panicked: {p}")),
                    Ok(b) => ensure!(
                        b == present,
                        "{what}: remove_arc returned {b} but the arc was {}",
                        if present { "present" } else { "absent" }
                    ),
                }
                if present {
                    m.a.remove(&(u, v));
                    if added {
                        stats.removed_present_after_add = true;
                    }
                }
            }
            Op::Toggle(u, v) => {
                if !S::TOGGLE {
                    continue;
                }
                stats.toggles += 1;
                let reject = u == v || !m.v.contains(&u) || !m.v.contains(&v);
                let before = g.clone();
                let r = guarded(|| g.toggle(u, v));
                if reject {
                    ensure!(r.is_err(), "{what}: toggle must be rejected but returned normally");
                    ensure!(g == before, "{what}: a rejected toggle changed the digraph");
                    stats.rejected += 1;
                    if i + 1 < c.ops.len() {
                        stats.rejected_not_last = true;
                    }
                } else {
                    if let Err(p) = r {
                        return Err(format!("{what}: a valid toggle panicked: {p}"));
                    }
                    if m.has(u, v) {
                        m.a.remove(&(u, v));
                        if added {
                            stats.removed_present_after_add = true;
                        }
                    } else {
                        m.a.insert((u, v), 1);
                        added = true;
                    }
                }
            }
        }
        compare(&g, &m, small || i % 8 == 7, &what)?;
    }
    compare(&g, &m, true, &format!("{name} at the end of the history"))?;
    if m.order() <= 40 && m.a.len() <= 200 {
        let arcs: Vec<(usize, usize)> = m.a.keys().copied().collect();
        let vs: Vec<usize> = m.v.iter().copied().collect();
        g.listing_protocol(name, &arcs, &vs)?;
    }
    let fresh = guarded(|| S::fresh(&m)).map_err(|p| format!("{name}: building the final digraph afresh panicked: {p}"))?;
    compare(&fresh, &m, false, &format!("{name} built afresh from the final arc set"))?;
    ensure!(
        g == fresh,
        "{name}: the digraph after the history is not == a digraph built afresh from the same arcs\n   history: {g:?}\n   fresh:   {fresh:?}"
    );
    Ok(stats)
}

pub type RawOp = (u8, u16, u16, u8, u8, i64);

/// The single mapping from raw random values to a history, shared by the
/// proptest strategy and the libFuzzer byte decoder.
pub fn case_from_raw(repr: u8, n: usize, via: u8, gen_kind: u8, seed: u64, raw_arcs: &[(u16, u16)], raw_ops: Vec<RawOp>) -> Case {
                let arcs: Vec<(usize, usize)> = if n >= 2 {
                    let s: BTreeSet<_> = raw_arcs.iter().map(|&p| gen::arc_of(p, n)).collect();
                    s.into_iter().collect()
                } else {
                    vec![]
                };
                let via = match via % 8 {
                    0..=2 => 0,
                    3 => 1,
                    4 => 2,
                    // AdjacencyMap: half of these start from a filter_vertices result
                    5 if repr == 1 => [5, 6, 10][(seed % 3) as usize],
                    // unweighted representations: the result of complement / converse / union
                    6 if repr < 4 && n <= 40 => 7 + (seed % 3) as u8,
                    5 | 6 => 3,
                    _ => 4,
                };
                // the order the subject really has after `start`
                let order_hint = n;
                let ops = raw_ops
                    .into_iter()
                    .map(|(kind, ru, rv, cu, cv, w)| {
                        let pick = |raw: u16, class: u8| -> usize {
                            if repr == 1 {
                                // AdjacencyMap: ids outside V are valid and grow V
                                match class % 10 {
                                    0..=5 => gen::idx(raw, order_hint),
                                    6 => order_hint,
                                    7 => order_hint + 1 + (raw as usize % 3),
                                    8 => [37, 64, 1000, 1 << 20][raw as usize % 4],
                                    _ => gen::idx(raw, order_hint + 6),
                                }
                            } else {
                                gen::vertex_arg(raw, class, order_hint)
                            }
                        };
                        let u = pick(ru, cu);
                        let v = if cv % 16 == 15 { u } else { pick(rv, cv) };
                        match kind % 10 {
                            0..=4 => Op::Add(u, v, w),
                            5..=7 => Op::Remove(u, v),
                            _ => {
                                if repr == 2 {
                                    Op::Toggle(u, v)
                                } else if kind % 2 == 0 {
                                    Op::Add(u, v, w)
                                } else {
                                    Op::Remove(u, v)
                                }
                            }
                        }
                    })
                    .collect();
                Case {
                    repr,
                    start: Start {
                        via,
                        order: n,
                        arcs,
                        gen_kind,
                        seed,
                    },
                    ops,
                }
            }

/// Decodes a libFuzzer input into a history (total).
pub fn case_from_bytes(data: &[u8]) -> Case {
    let mut b = crate::bytes::Bytes::new(data);
    let repr = b.u8() % 6;
    let n = match b.u8() {
        x if x < 40 => [8_usize, 9, 11, 16, 65][x as usize % 5],
        x => 1 + (x as usize % 24),
    };
    let (via, gen_kind, seed) = (b.u8(), b.u8(), b.u64());
    let na = b.count(30);
    let raw_arcs: Vec<(u16, u16)> = (0..na).map(|_| (b.u16(), b.u16())).collect();
    let mut raw_ops = vec![];
    while b.left() > 0 && raw_ops.len() < 60 {
        let kind = b.u8();
        let (ru, rv, cu, cv) = (b.u16(), b.u16(), b.u8(), b.u8());
        let w = match b.u8() % 8 {
            0 => b.i64(),
            1 => i64::MAX,
            2 => i64::MIN,
            x => i64::from(x) - 4,
        };
        raw_ops.push((kind, ru, rv, cu, cv, w));
    }
    case_from_raw(repr, n, via, gen_kind, seed, &raw_arcs, raw_ops)
}

pub struct C01;

fn op_strategy() -> impl Strategy<Value = (u8, u16, u16, u8, u8, i64)> {
    (
        any::<u8>(),
        any::<u16>(),
        any::<u16>(),
        any::<u8>(),
        any::<u8>(),
        prop_oneof![
            6 => -20..20_i64,
            2 => any::<i64>(),
            1 => Just(i64::MAX),
            1 => Just(i64::MIN),
            1 => Just(-1_i64),
        ],
    )
}

impl Prop for C01 {
    type Case = Case;
    const ID: &'static str = "C01";
    const NUM: u64 = 1;
    const RULE: &'static str = "stateful / model-based: representation in {AdjacencyList, AdjacencyMap, AdjacencyMatrix, EdgeList, AdjacencyListWeighted<usize>, AdjacencyListWeighted<isize>}; start digraph from empty+adds, a conversion, From<rows|arcs>, a deterministic generator, a seeded random generator (AdjacencyMap) a filter_vertices result whose vertex set is a run not starting at 0 / every other vertex / whatever a stateful predicate selected, or the result of complement / converse / union (order 1..24 quick / 1..70 thorough, orders 8, 9, 11, 16 over-represented for the bit matrix); then 0..40 (thorough 0..120) operations add_arc / add_arc_weighted / remove_arc / AdjacencyMatrix::toggle with vertex arguments in range (~70%), equal, = order, = order+1, far (1000, usize::MAX) and arbitrary weights; after every step order, vertices, arcs, weights, size, has_arc / arc_weight over all pairs of V + two ids outside V are compared with a BTreeSet model. About one random case in 25 has a large order (17..140, weighted towards 63..66, 96, 127..130, 140; at most 700 arcs). A low-rate 'huge' leg adds digraphs of 200..3100 vertices with O(n) arcs (paths, circuits, stars, wheels, trees, one row of exactly 255/256/257 out-neighbours, arcs in the last rows, complete below 300). At the end of a history arcs() and vertices() are driven through the consumption protocol of C02. Non-trivial = the history removes (or toggles off) a present arc after an add and contains a rejected call that is not the last step; distinct = distinct serialised case.";
    const ASSUMPTIONS: &'static [&'static str] = &[
        "panic messages are not compared",
        "for AdjacencyMap nothing is asserted about how large an id may be (ids up to 2^20 are used)",
        "seeded random generators: the start model is taken from the (validated) observation",
    ];

    fn legs(tier: Tier) -> Vec<Leg> {
        vec![
            Leg {
                name: "random",
                kind: LegKind::Random {
                    cases: tier.pick(12000, 100000),
                },
                workers: 16,
                build: Build::Normal,
            },
            Leg {
                name: "huge",
                kind: LegKind::Random {
                    cases: tier.pick(6, 60),
                },
                workers: 16,
                build: Build::Normal,
            },
        ]
    }

    fn strategy(leg: &str, tier: Tier) -> BoxedStrategy<Case> {
        if leg == "huge" {
            // histories on digraphs of several hundred to a few thousand vertices
            return (0..6_u8, gen::huge_dg(), any::<u8>(), any::<u64>(), vec(op_strategy(), 0..=30))
                .prop_map(|(repr, (g, _), via, seed, raw_ops)| {
                    let n = g.order;
                    let mut c = case_from_raw(repr, n, 0, 0, seed, &[], raw_ops);
                    c.start.arcs = g.arcs;
                    c.start.via = [0, 0, 1, 2][via as usize % 4];
                    // half of the operations are re-aimed at the last rows / columns
                    for (i, op) in c.ops.iter_mut().enumerate() {
                        if i % 2 == 0 {
                            let near = |x: usize| if x < n { n - 1 - (x % 7).min(n - 1) } else { x };
                            *op = match op.clone() {
                                Op::Add(u, v, w) => Op::Add(near(u), v, w),
                                Op::Remove(u, v) => Op::Remove(u, near(v)),
                                Op::Toggle(u, v) => Op::Toggle(near(u), near(v)),
                            };
                        }
                    }
                    c
                })
                .boxed();
        }
        let max_order = tier.pick(24, 70);
        let max_ops = tier.pick(40, 120);
        (
            0..6_u8,
            prop_oneof![
                3 => prop::sample::select(vec![8_usize, 9, 11, 16, 8, 9, 11, 16, 65, 66]),
                7 => 1_usize..=max_order,
            ],
            (any::<u8>(), any::<u8>(), any::<u64>()),
            vec((any::<u16>(), any::<u16>()), 0..=30),
            vec(op_strategy(), 0..=max_ops),
        )
            .prop_map(|(repr, n, (via, gen_kind, seed), raw_arcs, raw_ops)| {
                case_from_raw(repr, n, via, gen_kind, seed, &raw_arcs, raw_ops)
            })
            .boxed()
    }

    fn shrink(c: &Case) -> Vec<Case> {
        let mut out = vec![];
        for i in (0..c.ops.len()).rev() {
            let mut ops = c.ops.clone();
            ops.remove(i);
            out.push(Case { ops, ..c.clone() });
        }
        for i in 0..c.start.arcs.len() {
            let mut s = c.start.clone();
            s.arcs.remove(i);
            out.push(Case { start: s, ..c.clone() });
        }
        if c.start.via != 0 {
            let mut s = c.start.clone();
            s.via = 0;
            out.push(Case { start: s, ..c.clone() });
        }
        out
    }

    fn check(c: &Case, obs: &mut Obs) -> Verdict {
        let name = REPRS[c.repr as usize % 6];
        let stats = match c.repr % 6 {
            0 => run_history::<AdjacencyList>(c, name)?,
            1 => run_history::<AdjacencyMap>(c, name)?,
            2 => run_history::<AdjacencyMatrix>(c, name)?,
            3 => run_history::<EdgeList>(c, name)?,
            4 => run_history::<AdjacencyListWeighted<usize>>(c, name)?,
            _ => run_history::<AdjacencyListWeighted<isize>>(c, name)?,
        };
        obs.label(format!("repr={name}"));
        obs.label(format!("start-via={}", c.start.via));
        obs.label(match c.ops.len() {
            0 => "ops=0",
            1..=5 => "ops=1-5",
            6..=20 => "ops=6-20",
            _ => "ops>20",
        });
        if stats.rejected > 0 {
            obs.label("has-rejected-call");
        }
        if stats.toggles > 0 {
            obs.label("has-toggle");
        }
        if stats.removed_present_after_add {
            obs.label("removes-present-arc-after-add");
        }
        if stats.removed_present_after_add && stats.rejected_not_last {
            obs.nontrivial();
        }
        Ok(())
    }
}
