//! C09 — Tarjan partitions the vertices into the strongly connected components.

use crate::{
    ensure,
    gen::{self, Dg, MapDg},
    model::UModel,
    reprs::{self, Unweighted},
    runner::{Build, Leg, LegKind, Obs, Prop, Tier, Verdict},
};
use graaf::{AdjacencyList, AdjacencyMap, AdjacencyMatrix, EdgeList, OutNeighbors, Tarjan, Vertices};
use proptest::prelude::*;
use serde::{Deserialize, Serialize};
use std::collections::BTreeSet;

#[derive(Clone, Debug, Serialize, Deserialize)]
pub enum Case {
    Contiguous { g: Dg, family: String },
    Map { g: MapDg },
}

pub struct C09;

pub use crate::reprs::Scrambled;

fn check_tarjan<D: OutNeighbors + Vertices>(g: &D, name: &str, m: &UModel) -> Verdict {
    let mut t = Tarjan::new(g);
    let comps: Vec<BTreeSet<usize>> = t.components().clone();
    // asking the same instance again must give the same partition
    let again: Vec<BTreeSet<usize>> = t.components().clone();
    ensure!(
        again == comps,
        "Tarjan<{name}>: a second components() call on the same instance returns {again:?}, the first returned {comps:?}"
    );
    let mut seen: BTreeSet<usize> = BTreeSet::new();
    for c in &comps {
        ensure!(!c.is_empty(), "Tarjan<{name}> returned an empty component; {comps:?}");
        for &v in c {
            ensure!(
                seen.insert(v),
                "Tarjan<{name}>: vertex {v} lies in two components; {comps:?}"
            );
        }
    }
    ensure!(
        seen == m.v,
        "Tarjan<{name}>: components cover {seen:?}, the vertex set is {:?}",
        m.v
    );
    let got: BTreeSet<BTreeSet<usize>> = comps.into_iter().collect();
    let want = m.sccs();
    ensure!(
        got == want,
        "Tarjan<{name}>::components() = {got:?}, the strongly connected components are {want:?}"
    );
    Ok(())
}

impl Prop for C09 {
    type Case = Case;
    const ID: &'static str = "C09";
    const NUM: u64 = 9;
    const RULE: &'static str = "contiguous digraphs (order 1..14 quick / 1..60 thorough; uniform densities and 15 structured families incl. two circuits joined by one arc) in all five representations, and AdjacencyMap digraphs with non-contiguous vertex ids (subsets of {0..14, 37, 64, 1000, 2^20}) built through the public API; enum leg: every digraph of order <=4 (quick) / <=5 (thorough). About one random case in 25 has a large order (17..140, weighted towards 63..66, 96, 127..130, 140; at most 700 arcs). Every digraph is also run through a user-defined representation of the two traits that enumerates vertices and out-neighbours in scrambled order, and components() is called twice on the same instance. The user-defined representation also reports honest but loose size hints ((0, None), (k, None), loose upper bounds) from vertices() and out_neighbors(). Non-trivial = at least two components of size >=2, or an arc between two different components; distinct = distinct serialised case.";
    const ASSUMPTIONS: &'static [&'static str] = &["order of components and of vertices inside them is free (sets are compared)"];

    fn legs(tier: Tier) -> Vec<Leg> {
        let count = (1..=tier.pick(4, 5)).map(gen::count_digraphs).sum();
        vec![
            Leg {
                name: "random",
                kind: LegKind::Random {
                    cases: tier.pick(25000, 200000),
                },
                workers: 16,
                build: Build::Normal,
            },
            Leg {
                name: "enum",
                kind: LegKind::Enumerated { count },
                workers: 16,
                build: Build::Normal,
            },
            Leg {
                name: "huge",
                kind: LegKind::Random {
                    cases: tier.pick(1, 12),
                },
                workers: 16,
                build: Build::Normal,
            },
        ]
    }

    fn strategy(leg: &str, tier: Tier) -> BoxedStrategy<Case> {
        if leg == "huge" {
            return gen::huge_dg()
                .prop_map(|(g, family)| Case::Contiguous { g: gen::truncate_dg(g, 600), family })
                .boxed();
        }
        prop_oneof![
            3 => gen::digraph_labeled_big(tier.pick(14, 60)).prop_map(|(g, family)| Case::Contiguous { g, family }),
            1 => gen::map_digraph().prop_map(|g| Case::Map { g }),
        ]
        .boxed()
    }

    fn enum_case(_leg: &str, tier: Tier, mut idx: u64) -> Option<Case> {
        for n in 1..=tier.pick(4, 5) {
            if idx < gen::count_digraphs(n) {
                return Some(Case::Contiguous {
                    g: gen::nth_digraph(n, idx),
                    family: "enum".into(),
                });
            }
            idx -= gen::count_digraphs(n);
        }
        None
    }

    fn shrink(c: &Case) -> Vec<Case> {
        match c {
            Case::Contiguous { g, .. } => gen::shrink_dg(g)
                .into_iter()
                .map(|(g, _)| Case::Contiguous {
                    g,
                    family: String::new(),
                })
                .collect(),
            Case::Map { g } => gen::shrink_map(g).into_iter().map(|g| Case::Map { g }).collect(),
        }
    }

    fn check(c: &Case, obs: &mut Obs) -> Verdict {
        let m = match c {
            Case::Contiguous { g, family } => {
                let m = reprs::model_of(g);
                check_tarjan(&AdjacencyList::build(g), "AdjacencyList", &m)?;
                if m.order() <= 40 {
                    // clones, and clone_from targets built over another digraph (fresh or used)
                    let al = AdjacencyList::build(g);
                    let want: Vec<BTreeSet<usize>> = Tarjan::new(&al).components().clone();
                    let other = AdjacencyList::build(&gen::path_dg(if m.size() % 2 == 0 { m.order() / 2 } else { m.order() + 3 }));
                    for used_source in [false, true] {
                        let mut src = Tarjan::new(&al);
                        if used_source {
                            let _ = src.components();
                        }
                        let cl = src.clone().components().clone();
                        ensure!(cl == want, "Tarjan<AdjacencyList>: a clone of a {} instance returns {cl:?}, a fresh instance {want:?}", if used_source { "used" } else { "fresh" });
                        for used_target in [false, true] {
                            let mut t = Tarjan::new(&other);
                            if used_target {
                                let _ = t.components();
                            }
                            t.clone_from(&src);
                            let r = t.components().clone();
                            ensure!(
                                r == want,
                                "Tarjan<AdjacencyList>: clone_from onto a {} instance built over a path of order {} from a {} instance returns {r:?}, a fresh instance {want:?}",
                                if used_target { "used" } else { "fresh" },
                                graaf::Order::order(&other),
                                if used_source { "used" } else { "fresh" }
                            );
                        }
                    }
                }
                check_tarjan(&AdjacencyMap::build(g), "AdjacencyMap", &m)?;
                check_tarjan(&AdjacencyMatrix::build(g), "AdjacencyMatrix", &m)?;
                check_tarjan(&EdgeList::build(g), "EdgeList", &m)?;
                check_tarjan(&reprs::build_unit_weighted(g), "AdjacencyListWeighted", &m)?;
                if m.order() <= 200 {
                    let salt = m.size() * 31 + m.order();
                    check_tarjan(&Scrambled::new(&m, salt), "user-defined representation (scrambled enumeration order)", &m)?;
                    check_tarjan(&Scrambled::new(&m, salt + 1), "user-defined representation (scrambled enumeration order)", &m)?;
                }
                if !family.is_empty() {
                    obs.label(format!("family={family}"));
                }
                m
            }
            Case::Map { g } => {
                let m = reprs::map_model_of(g);
                let d = reprs::build_map(g);
                reprs::same(&d, &m, "building the non-contiguous AdjacencyMap through the public API")?;
                check_tarjan(&d, "AdjacencyMap(non-contiguous)", &m)?;
                check_tarjan(&Scrambled::new(&m, m.size() + 2), "user-defined representation (non-contiguous ids, scrambled order)", &m)?;
                obs.label(if m.is_contiguous() { "map-contiguous" } else { "map-non-contiguous" });
                m
            }
        };
        let sccs = m.sccs();
        let big = sccs.iter().filter(|s| s.len() >= 2).count();
        let comp_of = |v: usize| sccs.iter().position(|s| s.contains(&v));
        let cross = m.a.keys().any(|&(u, v)| comp_of(u) != comp_of(v));
        if big >= 2 {
            obs.label("two-components-of-size>=2");
        }
        if cross {
            obs.label("arc-between-components");
        }
        if big >= 2 || cross {
            obs.nontrivial();
        }
        obs.label(format!("components={}", sccs.len().min(6)));
        Ok(())
    }
}
