//! C03 — Dijkstra: exact distances, each reachable vertex once, nearest first.

use crate::{
    ensure,
    gen::{self, WDg},
    reprs,
    runner::{Build, Leg, LegKind, Obs, Prop, Tier, Verdict},
};
use graaf::{Dijkstra, DijkstraDist};
use proptest::prelude::*;
use serde::{Deserialize, Serialize};
use std::collections::{BTreeSet, BinaryHeap};

#[derive(Clone, Debug, Serialize, Deserialize)]
pub struct Case {
    pub g: WDg<usize>,
    pub sources: Vec<usize>,
    #[serde(default)]
    pub family: String,
}

pub struct C03;

pub const SOURCE_LISTS_3: &[&[usize]] = &[
    &[],
    &[0],
    &[1],
    &[2],
    &[0, 1],
    &[1, 0],
    &[0, 2],
    &[2, 1],
    &[0, 1, 2],
    &[2, 1, 0],
];

/// idx-th weighted digraph of order n with each ordered pair in
/// {absent} ∪ palette.
pub fn nth_weighted(n: usize, mut idx: u64, palette: &[usize]) -> WDg<usize> {
    let base = palette.len() as u64 + 1;
    let mut arcs = vec![];
    for u in 0..n {
        for v in 0..n {
            if u != v {
                let d = idx % base;
                idx /= base;
                if d > 0 {
                    arcs.push((u, v, palette[(d - 1) as usize]));
                }
            }
        }
    }
    WDg { order: n, arcs }
}

pub fn pow(b: u64, e: usize) -> u64 {
    b.pow(e as u32)
}

/// Textbook lazy-deletion Dijkstra, used only to classify cases: how many
/// superseded heap entries are popped before the last reachable vertex is
/// settled.
pub fn superseded_pops(g: &WDg<usize>, sources: &[usize]) -> (usize, bool) {
    let n = g.order;
    let mut adj = vec![vec![]; n];
    for &(u, v, w) in &g.arcs {
        adj[u].push((v, w));
    }
    let mut dist = vec![u128::MAX; n];
    let mut heap = BinaryHeap::new();
    for &s in sources {
        dist[s] = 0;
        heap.push(std::cmp::Reverse((0_u128, s)));
    }
    let mut settled = vec![false; n];
    let mut stale_total = 0;
    let mut stale_before_last = 0;
    let mut zero_on_shortest = false;
    while let Some(std::cmp::Reverse((d, u))) = heap.pop() {
        if settled[u] || d > dist[u] {
            stale_total += 1;
            continue;
        }
        settled[u] = true;
        stale_before_last = stale_total;
        for &(v, w) in &adj[u] {
            let nd = d + w as u128;
            if nd < dist[v] {
                dist[v] = nd;
                heap.push(std::cmp::Reverse((nd, v)));
            }
        }
    }
    for &(u, v, w) in &g.arcs {
        if w == 0 && dist[u] != u128::MAX && dist[u] == dist[v] && !sources.contains(&v) {
            zero_on_shortest = true;
        }
    }
    (stale_before_last, zero_on_shortest)
}

pub fn check_sequence(
    what: &str,
    seq: &[usize],
    reachable: &BTreeSet<usize>,
    dist: &dyn Fn(usize) -> i128,
) -> Verdict {
    let mut seen = BTreeSet::new();
    let mut prev: i128 = -1;
    for &v in seq {
        ensure!(
            reachable.contains(&v),
            "{what} yielded vertex {v}, which no source reaches; sequence {seq:?}"
        );
        ensure!(seen.insert(v), "{what} yielded vertex {v} twice; sequence {seq:?}");
        let d = dist(v);
        ensure!(
            d >= prev,
            "{what} yielded vertex {v} (distance {d}) after a vertex at distance {prev}; sequence {seq:?}"
        );
        prev = d;
    }
    ensure!(
        seen.len() == reachable.len(),
        "{what} yielded {seq:?} but the reachable set is {reachable:?} (missing {:?})",
        reachable.difference(&seen).collect::<Vec<_>>()
    );
    Ok(())
}

impl Prop for C03 {
    type Case = Case;
    const ID: &'static str = "C03";
    const NUM: u64 = 3;
    const RULE: &'static str = "random leg: AdjacencyListWeighted<usize> digraphs (order 1..12 quick / 1..40 thorough; uniform densities and 15 structured families; weight classes all-zero, 0/1, 0..10, 0..999, up to 2^40) with empty/single/multiple distinct sources; enum leg: every digraph of order <=3 (quick) / <=4 (thorough) with each ordered pair absent or weighted 0,1,2, times a fixed list of source sets. About one random case in 60..150 has a large order (17..140, incl. 63..66 and 127..130). The Dijkstra / DijkstraDist iterators are also driven through next()-then-count/last/fold/nth/collect at several split points, and clones taken mid-iteration must continue identically (order <= 40). Sources are also passed through `filter` and through an iterator reporting another honest size_hint shape; distances() is also called after 1, 2, len/2, len-1, len next() calls (a vertex may then be reported unreached only if unreachable or already yielded). Non-trivial = a textbook lazy-deletion Dijkstra pops at least one superseded heap entry before the last reachable vertex is settled, or a zero-weight arc lies on a shortest path; distinct = distinct serialised case.";
    const ASSUMPTIONS: &'static [&'static str] = &[
        "walk sums stay far below usize::MAX (weights <= 2^40, order <= 40)",
        "sources are distinct and in range, as the property requires",
        "the order among vertices of equal distance is not judged",
    ];

    fn legs(tier: Tier) -> Vec<Leg> {
        let enum_count = match tier {
            Tier::Quick => 1 + pow(4, 2) * 5 + pow(4, 6) * SOURCE_LISTS_3.len() as u64,
            Tier::Thorough => {
                1 + pow(4, 2) * 5 + pow(4, 6) * SOURCE_LISTS_3.len() as u64 + pow(4, 12) * 2
            }
        };
        vec![
            Leg {
                name: "random",
                kind: LegKind::Random {
                    cases: tier.pick(60000, 500000),
                },
                workers: 16,
                build: Build::Normal,
            },
            Leg {
                name: "enum",
                kind: LegKind::Enumerated { count: enum_count },
                workers: 16,
                build: Build::Normal,
            },
            Leg {
                name: "huge",
                kind: LegKind::Random {
                    cases: tier.pick(4, 40),
                },
                workers: 16,
                build: Build::Normal,
            },
        ]
    }

    fn strategy(leg: &str, tier: Tier) -> BoxedStrategy<Case> {
        if leg == "huge" {
            return (gen::huge_wusize(3100), gen::raw_sources())
                .prop_map(|((g, family), (raw, class))| {
                    let sources = gen::sources_from(&raw, class, g.order);
                    Case { g, sources, family }
                })
                .boxed();
        }
        (gen::weighted_usize_big_rate(tier.pick(12, 40), 60), gen::raw_sources())
            .prop_map(|((g, family), (raw, class))| {
                let sources = gen::sources_from(&raw, class, g.order);
                Case { g, sources, family }
            })
            .boxed()
    }

    fn enum_case(_leg: &str, _tier: Tier, mut idx: u64) -> Option<Case> {
        let pal = [0, 1, 2];
        let mk = |g: WDg<usize>, s: &[usize]| {
            Some(Case {
                g,
                sources: s.to_vec(),
                family: "enum".into(),
            })
        };
        if idx == 0 {
            return mk(nth_weighted(1, 0, &pal), &[0]);
        }
        idx -= 1;
        let l2: [&[usize]; 5] = [&[], &[0], &[1], &[0, 1], &[1, 0]];
        if idx < pow(4, 2) * 5 {
            return mk(nth_weighted(2, idx / 5, &pal), l2[(idx % 5) as usize]);
        }
        idx -= pow(4, 2) * 5;
        let k = SOURCE_LISTS_3.len() as u64;
        if idx < pow(4, 6) * k {
            return mk(nth_weighted(3, idx / k, &pal), SOURCE_LISTS_3[(idx % k) as usize]);
        }
        idx -= pow(4, 6) * k;
        let l4: [&[usize]; 2] = [&[0], &[1, 0]];
        mk(nth_weighted(4, idx / 2, &pal), l4[(idx % 2) as usize])
    }

    fn shrink(c: &Case) -> Vec<Case> {
        let mut out: Vec<Case> = gen::shrink_wdg(&c.g, gen::simpler_usize)
            .into_iter()
            .map(|(g, k)| Case {
                g,
                sources: gen::relabel_list(&c.sources, k),
                family: String::new(),
            })
            .collect();
        out.extend(gen::shrink_list(&c.sources).into_iter().map(|s| Case {
            g: c.g.clone(),
            sources: s,
            family: String::new(),
        }));
        out
    }

    fn check(c: &Case, obs: &mut Obs) -> Verdict {
        let m = reprs::wmodel_of(&c.g);
        let g = reprs::build_weighted(&c.g);
        let n = c.g.order;
        let reference = m.walk_dp(&c.sources);
        let reachable: BTreeSet<usize> = reference
            .dist
            .iter()
            .filter(|(_, d)| d.is_some())
            .map(|(&v, _)| v)
            .collect();
        let rd = |v: usize| reference.dist[&v].unwrap_or(-1);

        // distances()
        let got = DijkstraDist::new(&g, c.sources.iter().copied()).distances();
        ensure!(got.len() == n, "distances() has length {} for order {n}", got.len());
        for v in 0..n {
            match reference.dist[&v] {
                None => ensure!(
                    got[v] == usize::MAX,
                    "distances()[{v}] = {} but {v} is unreachable from {:?}",
                    got[v],
                    c.sources
                ),
                Some(d) => ensure!(
                    got[v] as i128 == d && got[v] != usize::MAX,
                    "distances()[{v}] = {} but the minimum walk weight from {:?} is {d}",
                    if got[v] == usize::MAX { "usize::MAX".to_string() } else { got[v].to_string() },
                    c.sources
                ),
            }
        }

        // distances() on an instance that was already stepped: a vertex may only
        // be reported unreached if it is unreachable or was yielded before the call
        if n <= 40 {
            let len = reachable.len();
            let mut ks = vec![1, 2, len / 2, len.saturating_sub(1), len];
            ks.retain(|&k| k >= 1 && k <= len);
            ks.sort_unstable();
            ks.dedup();
            for k in ks {
                let mut it = DijkstraDist::new(&g, c.sources.iter().copied());
                let yielded: BTreeSet<usize> = it.by_ref().take(k).map(|(v, _)| v).collect();
                let d = it.distances();
                ensure!(d.len() == n, "distances() after {k} next() calls has length {}", d.len());
                for v in 0..n {
                    let ok = match reference.dist[&v] {
                        None => d[v] == usize::MAX,
                        Some(x) => (d[v] != usize::MAX && d[v] as i128 == x) || (d[v] == usize::MAX && yielded.contains(&v)),
                    };
                    ensure!(
                        ok,
                        "DijkstraDist: distances() after {k} next() calls reports {} for vertex {v} (distance {:?}, yielded before the call: {yielded:?})",
                        if d[v] == usize::MAX { "usize::MAX".to_string() } else { d[v].to_string() },
                        reference.dist[&v]
                    );
                }
            }
        }

        // Dijkstra item sequence
        let seq: Vec<usize> = Dijkstra::new(&g, c.sources.iter().copied()).collect();
        check_sequence("Dijkstra", &seq, &reachable, &rd)?;

        // DijkstraDist item sequence
        let items: Vec<(usize, usize)> =
            DijkstraDist::new(&g, c.sources.iter().copied()).collect();
        let seq2: Vec<usize> = items.iter().map(|&(v, _)| v).collect();
        check_sequence("DijkstraDist", &seq2, &reachable, &rd)?;
        for &(v, d) in &items {
            ensure!(
                d as i128 == rd(v),
                "DijkstraDist yielded ({v}, {d}) but the distance of {v} is {}",
                rd(v)
            );
        }

        {
            // the same sources through an iterator with an inexact size hint
            let lazy = || c.sources.iter().copied().filter(|_| true);
            let s2: Vec<usize> = Dijkstra::new(&g, lazy()).collect();
            ensure!(s2 == seq, "Dijkstra: sources passed through `filter` give {s2:?}, passed directly {seq:?}");
            let i2: Vec<(usize, usize)> = DijkstraDist::new(&g, lazy()).collect();
            ensure!(i2 == items, "DijkstraDist: sources passed through `filter` give {i2:?}, passed directly {items:?}");
            // and through a draining iterator whose clones share one cursor
            let q = gen::shared_queue(&c.sources);
            let s4: Vec<usize> = Dijkstra::new(&g, gen::shared_cursor(&q)).collect();
            ensure!(s4 == seq, "Dijkstra: sources from a draining iterator whose clones share their cursor give {s4:?}, passed directly {seq:?}");
            let q = gen::shared_queue(&c.sources);
            let i4: Vec<(usize, usize)> = DijkstraDist::new(&g, gen::shared_cursor(&q)).collect();
            ensure!(i4 == items, "DijkstraDist: sources from a draining iterator whose clones share their cursor give {i4:?}, passed directly {items:?}");
            let q = gen::shared_queue(&c.sources);
            let d4 = DijkstraDist::new(&g, gen::shared_cursor(&q)).distances();
            ensure!(d4 == got, "DijkstraDist::distances(): sources from a draining iterator whose clones share their cursor give {d4:?}, passed directly {got:?}");
            // and through an iterator reporting another honest hint shape
            let h = gen::hint_pick(c.sources.len(), n + c.g.arcs.len());
            let s3: Vec<usize> = Dijkstra::new(&g, gen::hinted(c.sources.clone(), h)).collect();
            ensure!(s3 == seq, "Dijkstra: sources from an iterator with size_hint {h:?} give {s3:?}, passed directly {seq:?}");
            let i3: Vec<(usize, usize)> = DijkstraDist::new(&g, gen::hinted(c.sources.clone(), h)).collect();
            ensure!(i3 == items, "DijkstraDist: sources from an iterator with size_hint {h:?} give {i3:?}, passed directly {items:?}");
        }
        if n <= 40 {
            crate::props::c02::protocol("Dijkstra", || Dijkstra::new(&g, c.sources.iter().copied()), &seq)?;
            crate::props::c02::protocol("DijkstraDist", || DijkstraDist::new(&g, c.sources.iter().copied()), &items)?;
            crate::props::c02::clone_consistency("Dijkstra", || Dijkstra::new(&g, c.sources.iter().copied()), seq.len())?;
            crate::props::c02::clone_consistency("DijkstraDist", || DijkstraDist::new(&g, c.sources.iter().copied()), items.len())?;
            for alt in [reprs::build_unit_weighted(&gen::path_dg(n / 2)), reprs::build_unit_weighted(&gen::path_dg(n + 3)), g.clone()] {
                crate::props::c02::clone_from_consistency("Dijkstra", || Dijkstra::new(&g, c.sources.iter().copied()), || Dijkstra::new(&alt, std::iter::once(0)), seq.len())?;
                crate::props::c02::clone_from_consistency("DijkstraDist", || DijkstraDist::new(&g, c.sources.iter().copied()), || DijkstraDist::new(&alt, std::iter::once(0)), items.len())?;
            }
        }

        // classification
        let (stale, zero) = superseded_pops(&c.g, &c.sources);
        if stale > 0 {
            obs.label("superseded-entry-before-last-settle");
        }
        if zero {
            obs.label("zero-arc-on-shortest-path");
        }
        if stale > 0 || zero {
            obs.nontrivial();
        }
        obs.label(format!("sources={}", c.sources.len().min(3)));
        if !c.family.is_empty() {
            obs.label(format!("family={}", c.family));
        }
        if reachable.len() < n {
            obs.label("has-unreachable");
        }
        Ok(())
    }
}
