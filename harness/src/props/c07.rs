//! C07 — Bellman-Ford-Moore: exact distances, or None on a reachable negative
//! circuit.

use crate::{
    ensure,
    gen::{self, WDg},
    reprs,
    runner::{Build, Leg, LegKind, Obs, Prop, Tier, Verdict},
};
use graaf::{BellmanFordMoore, DijkstraDist};
use proptest::{collection::vec, prelude::*};
use serde::{Deserialize, Serialize};

#[derive(Clone, Debug, Serialize, Deserialize)]
pub struct Case {
    pub g: WDg<isize>,
    pub s: usize,
    #[serde(default)]
    pub family: String,
}

pub struct C07;

/// Overwrites arcs along a circuit through the chosen vertices with weight
/// `w` each (a negative circuit when `w < 0`).
pub fn plant_circuit(g: &mut WDg<isize>, picks: &[u16], w: isize) {
    let n = g.order;
    if n < 2 {
        return;
    }
    let mut vs: Vec<usize> = vec![];
    for &p in picks {
        let v = gen::idx(p, n);
        if !vs.contains(&v) {
            vs.push(v);
        }
    }
    if vs.len() < 2 {
        return;
    }
    for i in 0..vs.len() {
        let (u, v) = (vs[i], vs[(i + 1) % vs.len()]);
        g.arcs.retain(|&(a, b, _)| (a, b) != (u, v));
        g.arcs.push((u, v, w));
    }
    g.arcs.sort();
}

/// A digraph whose shortest-path tree is one Hamiltonian path visiting the
/// vertices in mostly descending id order (so a sweep over the arcs in
/// (tail, head) order advances the path by few hops and the |V|-1 round budget
/// has little or no slack), plus extra arcs that never shorten a path (weight
/// >= the potential difference, ties included): many heads are relaxed more
/// than once per sweep while the budget is tight.  Returns the source.
pub fn tight_budget(g: &mut WDg<isize>, swaps: usize) -> Option<usize> {
    let n = g.order;
    if n < 4 {
        return None;
    }
    // two descending runs (at most one ascent): the ids in `mask` descending,
    // then the others descending; now and then one extra swap
    let mask = g.arcs.iter().take(8).fold(swaps as u64, |a, x| a.wrapping_mul(0x9E37_79B9).wrapping_add((x.0 * 31 + x.1) as u64 ^ x.2 as u64));
    let mut perm: Vec<usize> = (0..n).rev().filter(|i| mask >> (i % 48) & 1 == 1).collect();
    perm.extend((0..n).rev().filter(|i| mask >> (i % 48) & 1 == 0));
    if swaps % 4 == 3 {
        perm.swap(swaps % n, (swaps / 4) % n);
    }
    let pick = |i: usize| g.arcs.get(i % g.arcs.len().max(1)).map_or(1, |a| a.2);
    let mut pd = vec![0_isize; n];
    let mut arcs: Vec<(usize, usize, isize)> = vec![];
    for i in 0..n - 1 {
        let w = pick(i).rem_euclid(11) - 3;
        pd[perm[i + 1]] = pd[perm[i]] + w;
        arcs.push((perm[i], perm[i + 1], w));
    }
        let extra = n;
    for &(u, v, w) in g.arcs.iter().take(extra) {
        if u != v && !arcs.iter().any(|a| (a.0, a.1) == (u, v)) {
            arcs.push((u, v, pd[v] - pd[u] + [0, 0, 1, 3, 9][w.rem_euclid(5) as usize]));
        }
    }
    arcs.sort();
    g.arcs = arcs;
    Some(perm[0])
}

impl Prop for C07 {
    type Case = Case;
    const ID: &'static str = "C07";
    const NUM: u64 = 7;
    const RULE: &'static str = "AdjacencyListWeighted<isize> digraphs (order 1..14 quick / 1..48 thorough; uniform densities and 15 structured families incl. reverse paths whose arc order forces |V|-1 sweeps) with weight classes non-negative, potential-based (many negative arcs, no negative circuit), small signed, few-negative, -1/0/1, optionally a planted negative circuit; half of the cases up to order 16 are 'tight-budget' digraphs (the shortest-path tree is a Hamiltonian path in mostly descending id order, so the |V|-1 sweep budget has little or no slack, plus extra arcs that tie or lose against the tree so that heads are relaxed several times per sweep); source in range (uniform, last vertex, first vertex); enum leg: every digraph of order <=3 with weights {-1,0,2} x every source. Arc-count residues mod 4 are tracked labels. About one random case in 60..150 has a large order (17..140, incl. 63..66 and 127..130). distances() is called twice on the same instance and must answer the same. Non-trivial = (a negative arc and the synchronous reference DP needs >=3 rounds) or a negative circuit exists that the source cannot reach; distinct = distinct serialised case.";
    const ASSUMPTIONS: &'static [&'static str] = &[
        "walk sums stay far inside isize (|w| < 100, order <= 48)",
        "when a negative circuit exists but is not reachable from the source the property allows None or a correct Some; both are accepted",
    ];

    fn legs(tier: Tier) -> Vec<Leg> {
        vec![
            Leg {
                name: "random",
                kind: LegKind::Random {
                    cases: tier.pick(400000, 1500000),
                },
                workers: 16,
                build: Build::Normal,
            },
            Leg {
                name: "enum",
                kind: LegKind::Enumerated {
                    count: 4_u64.pow(6) * 3 + 16 * 2 + 1,
                },
                workers: 8,
                build: Build::Normal,
            },
            Leg {
                name: "huge",
                kind: LegKind::Random {
                    cases: tier.pick(4, 40),
                },
                workers: 16,
                build: Build::Normal,
            },
        ]
    }

    fn strategy(leg: &str, tier: Tier) -> BoxedStrategy<Case> {
        if leg == "huge" {
            return (gen::huge_wisize(3100), any::<u16>(), any::<u8>())
                .prop_map(|((g, family), sraw, sclass)| {
                    let s = match sclass % 6 {
                        0 => g.order - 1,
                        1 => 0,
                        _ => gen::idx(sraw, g.order),
                    };
                    Case { g, s, family }
                })
                .boxed();
        }
        (
            gen::weighted_isize_big_rate(tier.pick(14, 48), 80),
            any::<u16>(),
            any::<u8>(),
            any::<u8>(),
            vec(any::<u16>(), 2..=4),
        )
            .prop_map(|((mut g, family), sraw, sclass, plant, picks)| {
                let mut family = family;
                match plant % 8 {
                    0 => {
                        plant_circuit(&mut g, &picks, -1);
                        family.push_str("+negcircuit");
                    }
                    1 => {
                        plant_circuit(&mut g, &picks, 0);
                        family.push_str("+zerocircuit");
                    }
                    2..=5 if g.order <= 16 => {
                        let swaps = (plant / 8) as usize % g.order;
                        if let Some(s) = tight_budget(&mut g, swaps) {
                            return Case { g, s, family: "tight-budget".into() };
                        }
                    }
                    _ => {}
                }
                let s = match sclass % 6 {
                    0 => g.order - 1,
                    1 => 0,
                    _ => gen::idx(sraw, g.order),
                };
                Case { g, s, family }
            })
            .boxed()
    }

    fn enum_case(_leg: &str, _tier: Tier, mut idx: u64) -> Option<Case> {
        let pal = [-1_isize, 0, 2];
        let nth = |n: usize, mut i: u64| {
            let mut arcs = vec![];
            for u in 0..n {
                for v in 0..n {
                    if u != v {
                        let d = i % 4;
                        i /= 4;
                        if d > 0 {
                            arcs.push((u, v, pal[(d - 1) as usize]));
                        }
                    }
                }
            }
            WDg { order: n, arcs }
        };
        let b3 = 4_u64.pow(6) * 3;
        if idx < b3 {
            return Some(Case {
                g: nth(3, idx / 3),
                s: (idx % 3) as usize,
                family: "enum".into(),
            });
        }
        idx -= b3;
        if idx < 32 {
            return Some(Case {
                g: nth(2, idx / 2),
                s: (idx % 2) as usize,
                family: "enum".into(),
            });
        }
        Some(Case {
            g: nth(1, 0),
            s: 0,
            family: "enum".into(),
        })
    }

    fn shrink(c: &Case) -> Vec<Case> {
        gen::shrink_wdg(&c.g, gen::simpler_isize)
            .into_iter()
            .filter_map(|(g, k)| {
                let s = match k {
                    None => c.s,
                    Some(k) => gen::relabel(c.s, k)?,
                };
                Some(Case {
                    g,
                    s,
                    family: String::new(),
                })
            })
            .collect()
    }

    fn check(c: &Case, obs: &mut Obs) -> Verdict {
        let m = reprs::wmodel_of(&c.g);
        let g = reprs::build_weighted(&c.g);
        let n = c.g.order;
        let reference = m.walk_dp(&[c.s]);
        let all: Vec<usize> = (0..n).collect();
        let anywhere = m.walk_dp(&all).negative_circuit;

        let mut bfm = BellmanFordMoore::new(&g, c.s);
        let got: Option<Vec<isize>> = bfm.distances().map(<[isize]>::to_vec);
        // asking the same instance again must give the same answer
        let again: Option<Vec<isize>> = bfm.distances().map(<[isize]>::to_vec);
        ensure!(again == got, "a second distances() call on the same instance returned {again:?}, the first {got:?}");
        if n <= 16 {
            // clones, and clone_from targets built over another digraph / source
            let other = reprs::build_weighted(&WDg { order: n + 2, arcs: (0..n + 1).map(|v| (v, v + 1, -1_isize)).collect() });
            for used_source in [false, true] {
                let mut src = BellmanFordMoore::new(&g, c.s);
                if used_source {
                    let _ = src.distances();
                }
                let cl: Option<Vec<isize>> = src.clone().distances().map(<[isize]>::to_vec);
                ensure!(cl == got, "a clone of a {} instance returned {cl:?}, the original {got:?}", if used_source { "used" } else { "fresh" });
                for used_target in [false, true] {
                    let mut t = BellmanFordMoore::new(&other, n + 1 - c.s.min(n));
                    if used_target {
                        let _ = t.distances();
                    }
                    t.clone_from(&src);
                    let r: Option<Vec<isize>> = t.distances().map(<[isize]>::to_vec);
                    ensure!(
                        r == got,
                        "clone_from onto a {} instance built over another digraph from a {} instance returned {r:?}, a fresh instance {got:?}",
                        if used_target { "used" } else { "fresh" },
                        if used_source { "used" } else { "fresh" }
                    );
                }
            }
        }
        if reference.negative_circuit {
            ensure!(
                got.is_none(),
                "distances() returned Some({got:?}) although a negative circuit is reachable from {}",
                c.s
            );
        } else {
            if !anywhere {
                ensure!(
                    got.is_some(),
                    "distances() returned None although the digraph has no negative circuit (source {})",
                    c.s
                );
            }
            if let Some(d) = &got {
                ensure!(d.len() == n, "distances() has length {} for order {n}", d.len());
                for v in 0..n {
                    match reference.dist[&v] {
                        None => ensure!(
                            d[v] == isize::MAX,
                            "distances()[{v}] = {} but {v} is unreachable from {}",
                            d[v],
                            c.s
                        ),
                        Some(x) => ensure!(
                            d[v] as i128 == x && d[v] != isize::MAX,
                            "distances()[{v}] = {} but the minimum walk weight from {} is {x}",
                            if d[v] == isize::MAX { "isize::MAX".to_string() } else { d[v].to_string() },
                            c.s
                        ),
                    }
                }
            }
        }

        // differential (secondary): on non-negative weights agree with Dijkstra
        let nonneg = c.g.arcs.iter().all(|a| a.2 >= 0);
        if nonneg {
            let ug = WDg {
                order: n,
                arcs: c.g.arcs.iter().map(|&(u, v, w)| (u, v, w as usize)).collect(),
            };
            let dj = DijkstraDist::new(&reprs::build_weighted(&ug), std::iter::once(c.s)).distances();
            let d = got.as_ref().ok_or("None on non-negative weights")?;
            for v in 0..n {
                let same = if dj[v] == usize::MAX {
                    d[v] == isize::MAX
                } else {
                    d[v] != isize::MAX && d[v] as usize == dj[v]
                };
                ensure!(
                    same,
                    "BellmanFordMoore and DijkstraDist disagree at vertex {v}: {} vs {}",
                    d[v],
                    dj[v]
                );
            }
            obs.label("nonneg (Dijkstra differential ran)");
        }

        let neg_arc = c.g.arcs.iter().any(|a| a.2 < 0);
        let unreachable_circuit = anywhere && !reference.negative_circuit;
        obs.label(format!("arcs%4={}", c.g.arcs.len() % 4));
        if c.g.arcs.len() <= 1 {
            obs.label(format!("arcs={}", c.g.arcs.len()));
        }
        if reference.negative_circuit {
            obs.label("negative-circuit-reachable");
        } else if unreachable_circuit {
            obs.label("negative-circuit-unreachable");
        } else {
            obs.label("no-negative-circuit");
        }
        obs.label(format!("rounds={}", reference.rounds.min(6)));
        if reference.rounds + 1 >= n && n >= 4 && !reference.negative_circuit {
            obs.label("needs-|V|-1-rounds");
        }
        if (neg_arc && reference.rounds >= 3) || unreachable_circuit {
            obs.nontrivial();
        }
        if !c.family.is_empty() {
            obs.label(format!("family={}", c.family));
        }
        Ok(())
    }
}
