#!/usr/bin/env python3
"""Regenerates /verif/MANIFEST.json from the table below (single source of truth)."""
import json, os, sys
ROOT = os.path.dirname(os.path.dirname(os.path.abspath(__file__)))

# id -> (technique, level text, level note, design ref)
CLAIMED = {
 "C03": ("property-based testing (proptest, seeded, multi-process) + small-scope exhaustive enumeration; oracle: dynamic-programming shortest-walk reference",
         "Generated-input search: DijkstraDist::distances() and the Dijkstra/DijkstraDist item sequences are compared with an independent walk-length dynamic programme on tens of thousands of generated weighted digraphs (all weight classes, empty/single/multiple sources) and on every digraph of order <=3 (quick) / <=4 (thorough) with weights 0,1,2. No proof: absence of a counter-example among the cases the evidence file counts.",
         "Trusts the reference dynamic programme in harness/src/model.rs (cross-checked against simple-path enumeration), proptest's generators, and that walk sums stay below usize::MAX as the property requires.",
         "DESIGN.md section 4, C03"),
 "C06": ("property-based testing (proptest) + small-scope exhaustive enumeration; oracle: depth-first-preorder validity predicate over the yielded sequence; known finding attributed by simulation and searched behind",
         "Generated-input search over digraphs x source lists x five representations x {Dfs, DfsDist, DfsPred, predecessors()}: every yielded item must be a legal next vertex of a depth-first preorder with the right predecessor/depth, and the yielded set must be the reachable set. The recorded defect KF-C06-1 (early None) is attributed by exact comparison with a simulation of the defect and the search continues behind it by resuming the iterator.",
         "Trusts the validity predicate (it accepts every depth-first preorder, whichever neighbour or source is taken first) and known_findings.json. Exhaustive only for order <=3/4.",
         "DESIGN.md section 4, C06"),
}
NOT_YET = {}

def main():
    props = [json.loads(l) for l in open(os.path.join(ROOT, "properties.jsonl"))]
    checks, na = [], []
    for p in props:
        i = p["id"]
        if i in CLAIMED:
            tech, text, note, ref = CLAIMED[i]
            checks.append({
                "property_id": i,
                "quick_cmd": f"./check {i} quick",
                "thorough_cmd": f"./check {i} thorough",
                "evidence_file": f"evidence/{i}.json",
                "replay_cmd_template": f"./check {i} --replay {{path}}",
                "engine": "gv",
                "level_claimed": {"category": "exploration", "text": text, "design_ref": ref},
                "level_note": note,
                "technique": tech,
            })
        else:
            na.append({"property_id": i, "reason": NOT_YET.get(i, "check not built yet (work in progress; DESIGN.md section 4 describes the planned generated-input check)")})
    m = {
        "version": 1,
        "setup_cmd": "./setup.sh",
        "hooks": {
            "guard": "graaf_verif",
            "enable": "none needed: every observation point is public API, process status or the allocator; checks build /repo as a plain path dependency",
            "baseline_off_cmd": "cd /repo && cargo nextest run --workspace --no-fail-fast --offline",
            "source_commits": [],
            "add_only": True,
        },
        "engines": [{
            "name": "gv",
            "path": "harness/",
            "serves_properties": sorted(CLAIMED),
            "kind_free_text": "Rust binary: seeded proptest strategies + exhaustive small-scope enumerators drive graaf's public API in 16 worker processes; explicit oracles (abstract digraph model, reference algorithms, validity predicates); shrinking; JSON replay files; crash isolation; AddressSanitizer build and counting-allocator leak meter for C13; sched_setaffinity control of the worker-thread count for C11/C12/C14/C15/C17",
        }],
        "checks": checks,
        "not_applicable": na,
        "notes": "Exit codes of every check: 0 held, 1 violation (VIOLATION line), 2 inconclusive (build failure, watchdog, OOM, generator starvation). Known findings: known_findings.json (read-only at run time). VERIF_SEED selects the PRNG stream; work is fixed by case counts, never by wall-clock quotas.",
    }
    json.dump(m, open(os.path.join(ROOT, "MANIFEST.json"), "w"), indent=1)
    print("claimed", len(checks), "not_applicable", len(na))

if __name__ == "__main__":
    main()
