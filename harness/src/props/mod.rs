pub mod c03;
pub mod c06;
