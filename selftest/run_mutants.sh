#!/bin/bash
# Runs every selftest/mutants/*.diff: repo test suite with the mutant (informational), then the quick
# check of each property listed in the .props file.  Appends to selftest/results.tsv.
cd /verif
OUT=selftest/results.tsv
: > $OUT
for d in selftest/mutants/*.diff; do
  name=$(basename $d .diff); props=$(cat selftest/mutants/$name.props)
  if ! git -C /repo diff --quiet; then echo "repo dirty, abort"; exit 3; fi
  git -C /repo apply $d || { echo -e "$name\tAPPLY-FAILED" >> $OUT; continue; }
  if [ -z "${SKIP_SUITE:-}" ]; then
    suite=$(cd /repo && CARGO_NET_OFFLINE=true cargo nextest run --workspace --no-fail-fast --offline 2>&1 | grep -E "Summary|error: could not compile" | tail -1 | sed 's/.*Summary \[[^]]*\] *//' | cut -c1-60)
  else suite="(not run)"; fi
  for ID in $props; do
    o=$(./check $ID quick 2>&1); rc=$?
    reason=$(echo "$o" | grep -m1 'reason:' | cut -c1-160)
    echo -e "$name\t$ID\texit=$rc\t$suite\t$reason" >> $OUT
  done
  git -C /repo checkout -- .
done
echo DONE >> $OUT
