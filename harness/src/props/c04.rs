//! C04 — breadth-first search: exactly the reachable set, nearest first.

use crate::{
    ensure,
    gen::{self, Dg},
    model::UModel,
    props::c03::check_sequence,
    reprs::{self, Unweighted},
    runner::{Build, Leg, LegKind, Obs, Prop, Tier, Verdict},
};
use graaf::{AdjacencyList, AdjacencyMap, AdjacencyMatrix, Bfs, BfsDist, EdgeList, Order, OutNeighbors};
use proptest::prelude::*;
use serde::{Deserialize, Serialize};
use std::collections::BTreeSet;

#[derive(Clone, Debug, Serialize, Deserialize)]
pub struct Case {
    pub g: Dg,
    pub sources: Vec<usize>,
    #[serde(default)]
    pub family: String,
}

pub fn check_bfs<D: Order + OutNeighbors + Clone>(g: &D, name: &str, m: &UModel, sources: &[usize], mk: &dyn Fn(&Dg) -> D) -> Verdict {
    let hops = m.hops(sources);
    let reachable: BTreeSet<usize> = hops.keys().copied().collect();
    let rd = |v: usize| hops.get(&v).map_or(-1, |&d| d as i128);
    let n = m.order();

    let seq: Vec<usize> = Bfs::new(g, sources.iter().copied()).collect();
    check_sequence(&format!("Bfs<{name}>"), &seq, &reachable, &rd)?;

    let items: Vec<(usize, usize)> = BfsDist::new(g, sources.iter().copied()).collect();
    let seq2: Vec<usize> = items.iter().map(|&(v, _)| v).collect();
    check_sequence(&format!("BfsDist<{name}>"), &seq2, &reachable, &rd)?;
    for &(v, d) in &items {
        ensure!(
            d as i128 == rd(v),
            "BfsDist<{name}> yielded ({v}, {d}) but the hop distance of {v} from {sources:?} is {}",
            rd(v)
        );
    }

    // the iterators behave like iterators over those sequences however they are consumed
    if n <= 40 {
        crate::props::c02::protocol(&format!("Bfs<{name}>"), || Bfs::new(g, sources.iter().copied()), &seq)?;
        crate::props::c02::protocol(&format!("BfsDist<{name}>"), || BfsDist::new(g, sources.iter().copied()), &items)?;
        crate::props::c02::clone_consistency(&format!("Bfs<{name}>"), || Bfs::new(g, sources.iter().copied()), seq.len())?;
        crate::props::c02::clone_consistency(&format!("BfsDist<{name}>"), || BfsDist::new(g, sources.iter().copied()), items.len())?;
        // clone_from onto an iterator over a digraph of smaller / larger order
        for alt in [mk(&gen::path_dg(n / 2)), mk(&gen::path_dg(n + 3))] {
            let src = || std::iter::once(0);
            crate::props::c02::clone_from_consistency(&format!("Bfs<{name}>"), || Bfs::new(g, sources.iter().copied()), || Bfs::new(&alt, src()), seq.len())?;
            crate::props::c02::clone_from_consistency(&format!("BfsDist<{name}>"), || BfsDist::new(g, sources.iter().copied()), || BfsDist::new(&alt, src()), items.len())?;
        }
    }
    // the same sources through an iterator with an inexact size hint
    let lazy = || sources.iter().copied().filter(|_| true);
    let seq_l: Vec<usize> = Bfs::new(g, lazy()).collect();
    ensure!(seq_l == seq, "Bfs<{name}>: sources passed through `filter` give {seq_l:?}, passed directly {seq:?}");
    let items_l: Vec<(usize, usize)> = BfsDist::new(g, lazy()).collect();
    ensure!(items_l == items, "BfsDist<{name}>: sources passed through `filter` give {items_l:?}, passed directly {items:?}");
    {
        // a draining iterator whose clones share one cursor
        let q = gen::shared_queue(sources);
        let seq_s: Vec<usize> = Bfs::new(g, gen::shared_cursor(&q)).collect();
        ensure!(seq_s == seq, "Bfs<{name}>: sources from a draining iterator whose clones share their cursor give {seq_s:?}, passed directly {seq:?}");
        let q = gen::shared_queue(sources);
        let items_s: Vec<(usize, usize)> = BfsDist::new(g, gen::shared_cursor(&q)).collect();
        ensure!(items_s == items, "BfsDist<{name}>: sources from a draining iterator whose clones share their cursor give {items_s:?}, passed directly {items:?}");
    }
    let h = gen::hint_pick(sources.len(), n + m.size());
    let seq_h: Vec<usize> = Bfs::new(g, gen::hinted(sources.to_vec(), h)).collect();
    ensure!(seq_h == seq, "Bfs<{name}>: sources from an iterator with size_hint {h:?} give {seq_h:?}, passed directly {seq:?}");
    let items_h: Vec<(usize, usize)> = BfsDist::new(g, gen::hinted(sources.to_vec(), h)).collect();
    ensure!(items_h == items, "BfsDist<{name}>: sources from an iterator with size_hint {h:?} give {items_h:?}, passed directly {items:?}");
    let dist_l = BfsDist::new(g, lazy()).distances();
    let dist = BfsDist::new(g, sources.iter().copied()).distances();
    ensure!(dist_l == dist, "BfsDist<{name}>::distances(): sources passed through `filter` give {dist_l:?}, passed directly {dist:?}");
    ensure!(dist.len() == n, "BfsDist<{name}>::distances() has length {} for order {n}", dist.len());
    for v in 0..n {
        match hops.get(&v) {
            None => ensure!(
                dist[v] == usize::MAX,
                "BfsDist<{name}>::distances()[{v}] = {} but {v} is unreachable from {sources:?}",
                dist[v]
            ),
            Some(&d) => ensure!(
                dist[v] == d,
                "BfsDist<{name}>::distances()[{v}] = {} but the hop distance from {sources:?} is {d}",
                if dist[v] == usize::MAX { "usize::MAX".into() } else { dist[v].to_string() }
            ),
        }
    }
    // distances() on an instance that was already stepped: a vertex may only
    // be reported unreached if it is unreachable or was yielded before the call
    if n <= 40 {
        let len = items.len();
        let mut ks = vec![1, 2, len / 2, len.saturating_sub(1), len];
        ks.retain(|&k| k >= 1 && k <= len);
        ks.sort_unstable();
        ks.dedup();
        for k in ks {
            let mut it = BfsDist::new(g, sources.iter().copied());
            let yielded: BTreeSet<usize> = it.by_ref().take(k).map(|(v, _)| v).collect();
            let d = it.distances();
            ensure!(d.len() == n, "BfsDist<{name}>: distances() after {k} next() calls has length {}", d.len());
            for v in 0..n {
                let ok = match hops.get(&v) {
                    None => d[v] == usize::MAX,
                    Some(&h) => d[v] == h || (d[v] == usize::MAX && yielded.contains(&v)),
                };
                ensure!(
                    ok,
                    "BfsDist<{name}>: distances() after {k} next() calls reports {} for vertex {v} (hop distance {:?}, yielded before the call: {yielded:?})",
                    if d[v] == usize::MAX { "usize::MAX".to_string() } else { d[v].to_string() },
                    hops.get(&v)
                );
            }
        }
    }
    Ok(())
}

pub struct C04;

pub const SOURCE_LISTS: &[&[usize]] = &[
    &[],
    &[0],
    &[1],
    &[2],
    &[3],
    &[0, 1],
    &[1, 0],
    &[0, 2],
    &[2, 1],
    &[3, 0],
    &[0, 1, 2],
    &[2, 1, 0],
    &[3, 1, 0, 2],
];

pub fn lists_for(n: usize) -> Vec<&'static [usize]> {
    SOURCE_LISTS
        .iter()
        .copied()
        .filter(|l| l.iter().all(|&v| v < n))
        .collect()
}

pub fn enum_dg_sources(max_n: usize, mut idx: u64) -> Option<(Dg, Vec<usize>)> {
    for n in 1..=max_n {
        let lists = lists_for(n);
        let k = lists.len() as u64;
        let block = gen::count_digraphs(n) * k;
        if idx < block {
            return Some((gen::nth_digraph(n, idx / k), lists[(idx % k) as usize].to_vec()));
        }
        idx -= block;
    }
    None
}

pub fn enum_dg_sources_count(max_n: usize) -> u64 {
    (1..=max_n)
        .map(|n| gen::count_digraphs(n) * lists_for(n).len() as u64)
        .sum()
}

impl Prop for C04 {
    type Case = Case;
    const ID: &'static str = "C04";
    const NUM: u64 = 4;
    const RULE: &'static str = "random leg: digraphs on 0..order (order 1..16 quick / 1..60 thorough; uniform densities and 15 structured families) in all five representations with empty/single/multiple distinct sources; enum leg: every digraph of order <=3 (quick) / <=4 (thorough) times a fixed list of source lists. About one random case in 25 has a large order (17..140, weighted towards 63..66, 96, 127..130, 140; at most 700 arcs). The Bfs / BfsDist iterators are also driven through next()-then-count/last/fold/nth/collect and mid-iteration clones (order <= 40). Sources are also passed through `filter` and through an iterator reporting another honest size_hint shape; distances() is also called after 1, 2, len/2, len-1, len next() calls (a vertex may then be reported unreached only if unreachable or already yielded). Non-trivial = at least two distinct non-zero BFS levels and some vertex with in-arcs from two different levels; distinct = distinct serialised case.";
    const ASSUMPTIONS: &'static [&'static str] = &[
        "order within a level is free",
        "sources are distinct and in range",
    ];

    fn legs(tier: Tier) -> Vec<Leg> {
        vec![
            Leg {
                name: "random",
                kind: LegKind::Random {
                    cases: tier.pick(40000, 300000),
                },
                workers: 16,
                build: Build::Normal,
            },
            Leg {
                name: "enum",
                kind: LegKind::Enumerated {
                    count: enum_dg_sources_count(tier.pick(3, 4)),
                },
                workers: 16,
                build: Build::Normal,
            },
            Leg {
                name: "huge",
                kind: LegKind::Random {
                    cases: tier.pick(3, 30),
                },
                workers: 16,
                build: Build::Normal,
            },
        ]
    }

    fn strategy(leg: &str, tier: Tier) -> BoxedStrategy<Case> {
        if leg == "huge" {
            return (gen::huge_dg(), gen::raw_sources())
                .prop_map(|((g, family), (raw, class))| {
                    let sources = gen::sources_from(&raw, class, g.order);
                    Case { g, sources, family }
                })
                .boxed();
        }
        (gen::digraph_labeled_big(tier.pick(16, 60)), gen::raw_sources())
            .prop_map(|((g, family), (raw, class))| {
                let sources = gen::sources_from(&raw, class, g.order);
                Case { g, sources, family }
            })
            .boxed()
    }

    fn enum_case(_leg: &str, tier: Tier, idx: u64) -> Option<Case> {
        enum_dg_sources(tier.pick(3, 4), idx).map(|(g, sources)| Case {
            g,
            sources,
            family: "enum".into(),
        })
    }

    fn shrink(c: &Case) -> Vec<Case> {
        let mut out: Vec<Case> = gen::shrink_dg(&c.g)
            .into_iter()
            .map(|(g, k)| Case {
                g,
                sources: gen::relabel_list(&c.sources, k),
                family: String::new(),
            })
            .collect();
        out.extend(gen::shrink_list(&c.sources).into_iter().map(|s| Case {
            g: c.g.clone(),
            sources: s,
            family: String::new(),
        }));
        out
    }

    fn check(c: &Case, obs: &mut Obs) -> Verdict {
        let m = reprs::model_of(&c.g);
        let s = &c.sources;
        check_bfs(&AdjacencyList::build(&c.g), "AdjacencyList", &m, s, &|d| AdjacencyList::build(d))?;
        check_bfs(&AdjacencyMap::build(&c.g), "AdjacencyMap", &m, s, &|d| AdjacencyMap::build(d))?;
        check_bfs(&AdjacencyMatrix::build(&c.g), "AdjacencyMatrix", &m, s, &|d| AdjacencyMatrix::build(d))?;
        check_bfs(&EdgeList::build(&c.g), "EdgeList", &m, s, &|d| EdgeList::build(d))?;
        check_bfs(&reprs::build_unit_weighted(&c.g), "AdjacencyListWeighted", &m, s, &reprs::build_unit_weighted)?;

        let hops = m.hops(s);
        let levels: BTreeSet<usize> = hops.values().copied().filter(|&d| d > 0).collect();
        let cross = hops.keys().any(|&v| {
            let ls: BTreeSet<usize> = m.inn(v).iter().filter_map(|u| hops.get(u).copied()).collect();
            ls.len() >= 2
        });
        if levels.len() >= 2 {
            obs.label("levels>=2");
        }
        if cross {
            obs.label("in-arcs-from-two-levels");
        }
        if levels.len() >= 2 && cross {
            obs.nontrivial();
        }
        obs.label(format!("sources={}", s.len().min(3)));
        if hops.len() < m.order() {
            obs.label("has-unreachable");
        }
        if !c.family.is_empty() {
            obs.label(format!("family={}", c.family));
        }
        Ok(())
    }
}
