//! C06 — depth-first search: exactly the reachable set, in a depth-first
//! preorder; DfsPred reports the tree parent, DfsDist the tree depth.

use crate::{
    ensure,
    gen::{self, Dg},
    model::UModel,
    reprs::{self, Unweighted},
    runner::{Build, Leg, LegKind, Obs, Prop, Tier, Verdict},
};
use graaf::{
    AdjacencyList, AdjacencyMap, AdjacencyMatrix, Dfs, DfsDist, DfsPred, EdgeList, Order,
    OutNeighbors,
};
use proptest::prelude::*;
use serde::{Deserialize, Serialize};
use std::collections::{BTreeMap, BTreeSet};

pub const KF: &str = "KF-C06-1";

#[derive(Clone, Debug, Serialize, Deserialize)]
pub struct Case {
    pub g: Dg,
    pub sources: Vec<usize>,
    #[serde(default)]
    pub family: String,
}

#[derive(Clone, Copy, Debug, PartialEq, Eq)]
pub struct Item {
    pub v: usize,
    /// `Some(p)` when the iterator reports a predecessor (DfsPred).
    pub pred: Option<Option<usize>>,
    /// `Some(d)` when the iterator reports a depth (DfsDist).
    pub depth: Option<usize>,
}

/// The validity predicate of the property.  `complete` additionally demands
/// that the yielded set equals the reachable set.
pub fn dfs_valid(m: &UModel, sources: &[usize], items: &[Item], complete: bool, what: &str) -> Verdict {
    let mut yielded: BTreeSet<usize> = BTreeSet::new();
    let mut depth: BTreeMap<usize, usize> = BTreeMap::new();
    let mut path: Vec<usize> = vec![];
    let seq: Vec<usize> = items.iter().map(|i| i.v).collect();
    for (k, it) in items.iter().enumerate() {
        while let Some(&top) = path.last() {
            if m.out(top).iter().any(|x| !yielded.contains(x)) {
                break;
            }
            path.pop();
        }
        ensure!(
            m.v.contains(&it.v),
            "{what}: item {k} is vertex {}, not in the digraph",
            it.v
        );
        ensure!(
            !yielded.contains(&it.v),
            "{what}: vertex {} yielded twice (item {k}); sequence {seq:?}",
            it.v
        );
        match path.last() {
            None => {
                ensure!(
                    sources.contains(&it.v),
                    "{what}: item {k} = {} starts a new tree but is not a source (sources {sources:?}); sequence {seq:?}",
                    it.v
                );
                if let Some(p) = it.pred {
                    ensure!(
                        p.is_none(),
                        "{what}: root {} reported with predecessor {p:?}; sequence {seq:?}",
                        it.v
                    );
                }
                if let Some(d) = it.depth {
                    ensure!(d == 0, "{what}: root {} reported at depth {d}; sequence {seq:?}", it.v);
                }
                depth.insert(it.v, 0);
            }
            Some(&top) => {
                ensure!(
                    m.has(top, it.v),
                    "{what}: item {k} = {} is not an out-neighbour of {top}, the deepest vertex on the search path with an unyielded out-neighbour (path {path:?}); sequence {seq:?}",
                    it.v
                );
                if let Some(p) = it.pred {
                    ensure!(
                        p == Some(top),
                        "{what}: vertex {} reported with predecessor {p:?}, but it was reached from {top}; sequence {seq:?}",
                        it.v
                    );
                }
                let d = depth[&top] + 1;
                if let Some(got) = it.depth {
                    ensure!(
                        got == d,
                        "{what}: vertex {} reported at depth {got}, its depth in the search tree is {d}; sequence {seq:?}",
                        it.v
                    );
                }
                depth.insert(it.v, d);
            }
        }
        yielded.insert(it.v);
        path.push(it.v);
    }
    if complete {
        let reach = m.reach(sources);
        ensure!(
            yielded == reach,
            "{what}: yielded {seq:?} but the reachable set is {reach:?} (missing {:?})",
            reach.difference(&yielded).collect::<Vec<_>>()
        );
    }
    Ok(())
}

/// Literal simulation of the recorded defect (explicit stack, mark on pop,
/// ascending pushes, *stop at the first already-visited pop*).  Used only to
/// attribute a truncated output to the known finding, never as an oracle.
pub fn defective_stack_dfs(m: &UModel, sources: &[usize]) -> Vec<Item> {
    let mut stack: Vec<(Option<usize>, usize, usize)> =
        sources.iter().map(|&s| (None, s, 0)).collect();
    let mut visited = BTreeSet::new();
    let mut out = vec![];
    while let Some((p, v, d)) = stack.pop() {
        if visited.contains(&v) {
            break;
        }
        visited.insert(v);
        for x in m.out(v) {
            if !visited.contains(&x) {
                stack.push((Some(v), x, d + 1));
            }
        }
        out.push(Item {
            v,
            pred: Some(p),
            depth: Some(d),
        });
    }
    out
}

fn same_up_to_reporting(a: &[Item], sim: &[Item]) -> bool {
    a.len() == sim.len()
        && a.iter().zip(sim).all(|(x, y)| {
            x.v == y.v
                && x.pred.map_or(true, |p| Some(p) == y.pred)
                && x.depth.map_or(true, |d| Some(d) == y.depth)
        })
}

/// Judges one iterator's behaviour.  `first` is what `collect()` returned;
/// `resume` continues calling `next()` on the same iterator.
fn judge(
    what: &str,
    m: &UModel,
    sources: &[usize],
    first: Vec<Item>,
    mut resume: impl FnMut() -> Option<Item>,
    budget: usize,
    obs: &mut Obs,
) -> Verdict {
    let reach = m.reach(sources);
    // every yielded item must be valid in any case
    dfs_valid(m, sources, &first, false, what)?;
    if first.len() == reach.len() {
        return dfs_valid(m, sources, &first, true, what);
    }
    // incomplete: is it the recorded finding?
    let sim = defective_stack_dfs(m, sources);
    let attributable = first.len() < reach.len() && same_up_to_reporting(&first, &sim);
    if !(attributable && obs.known(KF)) {
        return dfs_valid(m, sources, &first, true, what);
    }
    // search behind the finding: the iterator is not fused.
    let mut all = first;
    for _ in 0..budget {
        if let Some(it) = resume() {
            all.push(it);
        }
    }
    dfs_valid(m, sources, &all, true, &format!("{what} (resumed past the known early None)"))
}

fn check_repr<D>(g: &D, alt: &D, name: &str, m: &UModel, sources: &[usize], obs: &mut Obs, mk: &dyn Fn(&Dg) -> D) -> Verdict
where
    D: Order + OutNeighbors + Clone,
{
    let budget = m.size() + sources.len() + 2;
    if m.order() <= 40 {
        let len = m.reach(sources).len();
        // `alt` is another digraph of the same representation and order (the converse)
        crate::props::c02::clone_from_consistency(&format!("Dfs<{name}>"), || Dfs::new(g, sources.iter().copied()), || Dfs::new(alt, sources.iter().copied()), len)?;
        crate::props::c02::clone_from_consistency(&format!("DfsDist<{name}>"), || DfsDist::new(g, sources.iter().copied()), || DfsDist::new(alt, sources.iter().copied()), len)?;
        crate::props::c02::clone_from_consistency(&format!("DfsPred<{name}>"), || DfsPred::new(g, sources.iter().copied()), || DfsPred::new(alt, sources.iter().copied()), len)?;
        // and onto iterators over digraphs of smaller / larger order
        for other in [mk(&gen::path_dg(m.order() / 2)), mk(&gen::path_dg(m.order() + 3))] {
            let src = || std::iter::once(0);
            crate::props::c02::clone_from_consistency(&format!("Dfs<{name}>"), || Dfs::new(g, sources.iter().copied()), || Dfs::new(&other, src()), len)?;
            crate::props::c02::clone_from_consistency(&format!("DfsDist<{name}>"), || DfsDist::new(g, sources.iter().copied()), || DfsDist::new(&other, src()), len)?;
            crate::props::c02::clone_from_consistency(&format!("DfsPred<{name}>"), || DfsPred::new(g, sources.iter().copied()), || DfsPred::new(&other, src()), len)?;
        }
        // when the plain traversal is complete (no early None), the iterator must behave
        // like an iterator over that sequence under count / last / fold / nth as well
        let full: Vec<usize> = Dfs::new(g, sources.iter().copied()).collect();
        if full.len() == len {
            crate::props::c02::protocol(&format!("Dfs<{name}>"), || Dfs::new(g, sources.iter().copied()), &full)?;
            let fd: Vec<(usize, usize)> = DfsDist::new(g, sources.iter().copied()).collect();
            crate::props::c02::protocol(&format!("DfsDist<{name}>"), || DfsDist::new(g, sources.iter().copied()), &fd)?;
            let fp: Vec<(Option<usize>, usize)> = DfsPred::new(g, sources.iter().copied()).collect();
            crate::props::c02::protocol(&format!("DfsPred<{name}>"), || DfsPred::new(g, sources.iter().copied()), &fp)?;
        }
        crate::props::c02::clone_consistency(&format!("Dfs<{name}>"), || Dfs::new(g, sources.iter().copied()), len)?;
        crate::props::c02::clone_consistency(&format!("DfsDist<{name}>"), || DfsDist::new(g, sources.iter().copied()), len)?;
        crate::props::c02::clone_consistency(&format!("DfsPred<{name}>"), || DfsPred::new(g, sources.iter().copied()), len)?;
    }

    {
        // the same sources through an iterator with an inexact size hint
        let lazy = || sources.iter().copied().filter(|_| true);
        let a: Vec<usize> = Dfs::new(g, sources.iter().copied()).collect();
        let b: Vec<usize> = Dfs::new(g, lazy()).collect();
        ensure!(a == b, "Dfs<{name}>: sources passed through `filter` give {b:?}, passed directly {a:?}");
        let a: Vec<(usize, usize)> = DfsDist::new(g, sources.iter().copied()).collect();
        let b: Vec<(usize, usize)> = DfsDist::new(g, lazy()).collect();
        ensure!(a == b, "DfsDist<{name}>: sources passed through `filter` give {b:?}, passed directly {a:?}");
        let a: Vec<(Option<usize>, usize)> = DfsPred::new(g, sources.iter().copied()).collect();
        let b: Vec<(Option<usize>, usize)> = DfsPred::new(g, lazy()).collect();
        ensure!(a == b, "DfsPred<{name}>: sources passed through `filter` give {b:?}, passed directly {a:?}");
        {
            let q = gen::shared_queue(sources);
            let b: Vec<(Option<usize>, usize)> = DfsPred::new(g, gen::shared_cursor(&q)).collect();
            ensure!(a == b, "DfsPred<{name}>: sources from a draining iterator whose clones share their cursor give {b:?}, passed directly {a:?}");
            let q = gen::shared_queue(sources);
            let x: Vec<usize> = Dfs::new(g, sources.iter().copied()).collect();
            let y: Vec<usize> = Dfs::new(g, gen::shared_cursor(&q)).collect();
            ensure!(x == y, "Dfs<{name}>: sources from a draining iterator whose clones share their cursor give {y:?}, passed directly {x:?}");
            let q = gen::shared_queue(sources);
            let x: Vec<(usize, usize)> = DfsDist::new(g, sources.iter().copied()).collect();
            let y: Vec<(usize, usize)> = DfsDist::new(g, gen::shared_cursor(&q)).collect();
            ensure!(x == y, "DfsDist<{name}>: sources from a draining iterator whose clones share their cursor give {y:?}, passed directly {x:?}");
        }
        let h = gen::hint_pick(sources.len(), a.len() + sources.iter().sum::<usize>());
        let b: Vec<(Option<usize>, usize)> = DfsPred::new(g, gen::hinted(sources.to_vec(), h)).collect();
        ensure!(a == b, "DfsPred<{name}>: sources from an iterator with size_hint {h:?} give {b:?}, passed directly {a:?}");
        let a: Vec<usize> = Dfs::new(g, sources.iter().copied()).collect();
        let b: Vec<usize> = Dfs::new(g, gen::hinted(sources.to_vec(), h)).collect();
        ensure!(a == b, "Dfs<{name}>: sources from an iterator with size_hint {h:?} give {b:?}, passed directly {a:?}");
        let a: Vec<(usize, usize)> = DfsDist::new(g, sources.iter().copied()).collect();
        let b: Vec<(usize, usize)> = DfsDist::new(g, gen::hinted(sources.to_vec(), h)).collect();
        ensure!(a == b, "DfsDist<{name}>: sources from an iterator with size_hint {h:?} give {b:?}, passed directly {a:?}");
    }
    let mut it = Dfs::new(g, sources.iter().copied());
    let first: Vec<Item> = it
        .by_ref()
        .map(|v| Item {
            v,
            pred: None,
            depth: None,
        })
        .collect();
    judge(
        &format!("Dfs<{name}>"),
        m,
        sources,
        first,
        || {
            it.next().map(|v| Item {
                v,
                pred: None,
                depth: None,
            })
        },
        budget,
        obs,
    )?;

    let mut it = DfsDist::new(g, sources.iter().copied());
    let first: Vec<Item> = it
        .by_ref()
        .map(|(v, d)| Item {
            v,
            pred: None,
            depth: Some(d),
        })
        .collect();
    judge(
        &format!("DfsDist<{name}>"),
        m,
        sources,
        first,
        || {
            it.next().map(|(v, d)| Item {
                v,
                pred: None,
                depth: Some(d),
            })
        },
        budget,
        obs,
    )?;

    let mut it = DfsPred::new(g, sources.iter().copied());
    let first: Vec<Item> = it
        .by_ref()
        .map(|(p, v)| Item {
            v,
            pred: Some(p),
            depth: None,
        })
        .collect();
    let first_pred = first.clone();
    judge(
        &format!("DfsPred<{name}>"),
        m,
        sources,
        first,
        || {
            it.next().map(|(p, v)| Item {
                v,
                pred: Some(p),
                depth: None,
            })
        },
        budget,
        obs,
    )?;

    // predecessors(): the forest of the traversal.
    let what = format!("DfsPred<{name}>::predecessors()");
    let reach = m.reach(sources);
    let n = m.order();
    let forest_of = |items: &[Item]| {
        let mut f: Vec<Option<usize>> = vec![None; n];
        for it in items {
            if let Some(Some(p)) = it.pred {
                if it.v < n {
                    f[it.v] = Some(p);
                }
            }
        }
        f
    };
    // the full traversal (resumed past early Nones; validated by `judge`)
    let mut full = DfsPred::new(g, sources.iter().copied());
    let mut seq: Vec<Item> = vec![];
    for _ in 0..(budget + reach.len() + 1) {
        if let Some((p, v)) = full.next() {
            seq.push(Item {
                v,
                pred: Some(p),
                depth: None,
            });
        }
    }
    let want_full = forest_of(&seq);
    let want_first = forest_of(&first_pred);
    let mut it = DfsPred::new(g, sources.iter().copied());
    let tree = it.predecessors();
    ensure!(
        tree.pred == want_first,
        "{what} = {:?}, but the traversal's search forest is {:?} (sources {sources:?})",
        tree.pred,
        want_first
    );
    if first_pred.len() < reach.len() {
        // truncated by the recorded finding (anything else was rejected by
        // `judge`): the remaining segments must complete the forest.
        let mut merged = tree.pred.clone();
        for _ in 0..budget {
            let more = it.predecessors();
            ensure!(more.pred.len() == n, "{what}: resumed call returned {} entries", more.pred.len());
            for (v, p) in more.pred.iter().enumerate() {
                if p.is_some() {
                    ensure!(
                        merged[v].is_none(),
                        "{what}: vertex {v} receives a predecessor twice across resumed calls"
                    );
                    merged[v] = *p;
                }
            }
        }
        ensure!(
            merged == want_full,
            "{what} resumed past the known early None = {merged:?}, the search forest is {want_full:?}"
        );
    }
    for (v, p) in want_full.iter().enumerate() {
        if let Some(p) = p {
            ensure!(m.has(*p, v), "{what}: predecessor {p} of {v} is not joined to it by an arc");
        }
        if !reach.contains(&v) || p.is_none() {
            continue;
        }
    }
    Ok(())
}

pub struct C06;

const SOURCE_LISTS: &[&[usize]] = &[
    &[],
    &[0],
    &[1],
    &[2],
    &[3],
    &[0, 1],
    &[1, 0],
    &[0, 2],
    &[2, 1],
    &[3, 0],
    &[0, 1, 2],
    &[2, 1, 0],
    &[3, 1, 0, 2],
];

fn lists_for(n: usize) -> Vec<&'static [usize]> {
    SOURCE_LISTS
        .iter()
        .copied()
        .filter(|l| l.iter().all(|&v| v < n))
        .collect()
}

impl Prop for C06 {
    type Case = Case;
    const ID: &'static str = "C06";
    const NUM: u64 = 6;
    const RULE: &'static str = "random leg: digraphs on 0..order (order 1..16 quick / 1..60 thorough; uniform densities and 15 structured families incl. out-forests and paths) in all five representations with empty/single/multiple distinct sources; enum leg: every digraph of order <=3 (quick) / <=4 (thorough) times a fixed list of source lists. About one random case in 25 has a large order (17..140, weighted towards 63..66, 96, 127..130, 140; at most 700 arcs). Clones taken mid-iteration and clone_from onto an iterator over the converse digraph must continue identically; complete traversals are also driven through next()-then-count/last/fold/nth/collect (order <= 40). Sources are also passed through `filter` and an iterator with another honest size_hint shape. Non-trivial = some reachable vertex has two in-arcs from reachable vertices (it can be pushed twice), or >=2 sources with one inside another's tree; distinct = distinct serialised case. Cases whose collect() output stops early exactly where a literal simulation of the recorded defect (KF-C06-1) stops are counted as excluded_known and searched behind by resuming next().";
    const ASSUMPTIONS: &'static [&'static str] = &[
        "which out-neighbour is taken first and which source roots first are free: the oracle is a predicate over the output",
        "sources are distinct and in range",
        "KF-C06-1 (early None on an already-visited stack entry) is a recorded finding that cannot be repaired without editing pinned unit tests",
    ];

    fn legs(tier: Tier) -> Vec<Leg> {
        let mut count = 0;
        for n in 1..=tier.pick(3, 4) {
            count += gen::count_digraphs(n) * lists_for(n).len() as u64;
        }
        vec![
            Leg {
                name: "random",
                kind: LegKind::Random {
                    cases: tier.pick(30000, 250000),
                },
                workers: 16,
                build: Build::Normal,
            },
            Leg {
                name: "enum",
                kind: LegKind::Enumerated { count },
                workers: 16,
                build: Build::Normal,
            },
            Leg {
                name: "huge",
                kind: LegKind::Random {
                    cases: tier.pick(2, 16),
                },
                workers: 16,
                build: Build::Normal,
            },
        ]
    }

    fn strategy(leg: &str, tier: Tier) -> BoxedStrategy<Case> {
        if leg == "huge" {
            return (gen::huge_dg(), gen::raw_sources())
                .prop_map(|((g, family), (raw, class))| {
                    let sources = gen::sources_from(&raw, class, g.order);
                    Case { g, sources, family }
                })
                .boxed();
        }
        (gen::digraph_labeled_big(tier.pick(16, 60)), gen::raw_sources())
            .prop_map(|((g, family), (raw, class))| {
                let sources = gen::sources_from(&raw, class, g.order);
                Case { g, sources, family }
            })
            .boxed()
    }

    fn enum_case(_leg: &str, tier: Tier, mut idx: u64) -> Option<Case> {
        for n in 1..=tier.pick(3, 4) {
            let lists = lists_for(n);
            let block = gen::count_digraphs(n) * lists.len() as u64;
            if idx < block {
                let k = lists.len() as u64;
                return Some(Case {
                    g: gen::nth_digraph(n, idx / k),
                    sources: lists[(idx % k) as usize].to_vec(),
                    family: "enum".into(),
                });
            }
            idx -= block;
        }
        None
    }

    fn shrink(c: &Case) -> Vec<Case> {
        let mut out: Vec<Case> = gen::shrink_dg(&c.g)
            .into_iter()
            .map(|(g, k)| Case {
                g,
                sources: gen::relabel_list(&c.sources, k),
                family: String::new(),
            })
            .collect();
        out.extend(gen::shrink_list(&c.sources).into_iter().map(|s| Case {
            g: c.g.clone(),
            sources: s,
            family: String::new(),
        }));
        out
    }

    fn check(c: &Case, obs: &mut Obs) -> Verdict {
        let m = reprs::model_of(&c.g);
        let s = &c.sources;
        let alt = Dg {
            order: c.g.order,
            arcs: {
                let mut a: Vec<(usize, usize)> = c.g.arcs.iter().map(|&(u, v)| (v, u)).collect();
                a.sort_unstable();
                a
            },
        };
        check_repr(&AdjacencyList::build(&c.g), &AdjacencyList::build(&alt), "AdjacencyList", &m, s, obs, &|d| AdjacencyList::build(d))?;
        check_repr(&AdjacencyMap::build(&c.g), &AdjacencyMap::build(&alt), "AdjacencyMap", &m, s, obs, &|d| AdjacencyMap::build(d))?;
        check_repr(&AdjacencyMatrix::build(&c.g), &AdjacencyMatrix::build(&alt), "AdjacencyMatrix", &m, s, obs, &|d| AdjacencyMatrix::build(d))?;
        check_repr(&EdgeList::build(&c.g), &EdgeList::build(&alt), "EdgeList", &m, s, obs, &|d| EdgeList::build(d))?;
        check_repr(&reprs::build_unit_weighted(&c.g), &reprs::build_unit_weighted(&alt), "AdjacencyListWeighted", &m, s, obs, &reprs::build_unit_weighted)?;

        let reach = m.reach(s);
        let multi_in = reach
            .iter()
            .any(|&v| m.inn(v).iter().filter(|u| reach.contains(u)).count() >= 2);
        let nested_sources = s.len() >= 2
            && s.iter().any(|&a| s.iter().any(|&b| a != b && m.reach(&[b]).contains(&a)));
        if multi_in {
            obs.label("vertex-reachable-along-two-paths");
        } else {
            obs.label("indegree<=1-within-reach (no duplicate push possible)");
        }
        if nested_sources {
            obs.label("source-inside-another-sources-tree");
        }
        if multi_in || nested_sources {
            obs.nontrivial();
        }
        let sim = defective_stack_dfs(&m, s);
        if sim.len() < reach.len() {
            obs.label("truncated-by-KF-C06-1");
        } else {
            obs.label("complete-on-first-collect");
        }
        obs.label(format!("sources={}", s.len().min(3)));
        if !c.family.is_empty() {
            obs.label(format!("family={}", c.family));
        }
        Ok(())
    }
}
