//! C17 — results never depend on the number of worker threads or their
//! interleaving.

use crate::{
    ensure,
    gen::{self, Dg, MapDg},
    model::{closed_form, UModel},
    props::{c11::relative_order, c15::valid_model},
    reprs::{self, Unweighted},
    runner::{guarded, Build, Leg, LegKind, Obs, Prop, Tier, Verdict},
    sys::{self, Cpus},
};
use graaf::{
    AdjacencyList, AdjacencyMap, Complement, Complete, DegreeSequence, ErdosRenyi, IsSemicomplete,
    RandomTournament, Union,
};
use proptest::{collection::vec, prelude::*};
use serde::{Deserialize, Serialize};
use std::collections::BTreeSet;

pub const OPS: [&str; 8] = [
    "AdjacencyList::complement",
    "AdjacencyList::complete",
    "AdjacencyList::degree_sequence",
    "AdjacencyList::is_semicomplete",
    "AdjacencyList::union",
    "AdjacencyMap::union",
    "AdjacencyMap::random_tournament",
    "AdjacencyMap::erdos_renyi",
];

#[derive(Clone, Debug, Serialize, Deserialize)]
pub struct Case {
    pub op: u8,
    pub a: Dg,
    pub b: Dg,
    pub ma: MapDg,
    pub mb: MapDg,
    pub seed: u64,
    pub p: f64,
    pub cpus: usize,
    pub reps: usize,
}

pub struct C17;

fn big_map(bits_raw: &[u16], pairs: &[(u16, u16)], len_raw: u16, pool: usize) -> MapDg {
    let vs: Vec<usize> = (0..pool).filter(|&i| bits_raw[i % bits_raw.len()] >> (i % 13) & 1 == 1).collect();
    let vs = if vs.is_empty() { vec![gen::idx(len_raw, pool)] } else { vs };
    let n = vs.len();
    let mut a = BTreeSet::new();
    if n >= 2 {
        let target = gen::idx(len_raw, pairs.len() + 1);
        for &p in pairs.iter().take(target) {
            let (i, j) = gen::arc_of(p, n);
            a.insert((vs[i], vs[j]));
        }
    }
    MapDg {
        vertices: vs,
        arcs: a.into_iter().collect(),
    }
}

fn once(c: &Case) -> Verdict {
    let name = OPS[c.op as usize % OPS.len()];
    match name {
        "AdjacencyList::complement" => {
            let g = AdjacencyList::build(&c.a);
            let r = guarded(|| g.complement()).map_err(|p| format!("{name} panicked: {p}"))?;
            reprs::same(&r, &reprs::model_of(&c.a).complement(), name)
        }
        "AdjacencyList::complete" => {
            let n = c.a.order;
            let r = guarded(|| AdjacencyList::complete(n)).map_err(|p| format!("{name}({n}) panicked: {p}"))?;
            let (o, arcs) = closed_form("complete", n, 0);
            reprs::same(&r, &UModel::from_pairs(o, &arcs), &format!("{name}({n})"))
        }
        "AdjacencyList::degree_sequence" => {
            let g = AdjacencyList::build(&c.a);
            let got: Vec<usize> = guarded(|| g.degree_sequence().collect()).map_err(|p| format!("{name} panicked: {p}"))?;
            // definition: indegree + outdegree, counted in one pass over the arc list
            let mut want = vec![0_usize; c.a.order];
            let distinct: BTreeSet<(usize, usize)> = c.a.arcs.iter().copied().collect();
            for &(u, v) in &distinct {
                want[u] += 1;
                want[v] += 1;
            }
            if got != want {
                let bad: Vec<(usize, usize, usize)> = (0..want.len().min(got.len())).filter(|&i| got[i] != want[i]).take(8).map(|i| (i, got[i], want[i])).collect();
                if want.len() > 200 {
                    return Err(format!("{name} differs from the definition at {} vertices of {}; first (vertex, got, want): {bad:?}; lengths {} vs {}", (0..want.len().min(got.len())).filter(|&i| got[i] != want[i]).count(), want.len(), got.len(), want.len()));
                }
                return Err(format!("{name} = {got:?}, definition {want:?}"));
            }
            // two sequences alive at the same time (the digraph and one with its
            // first arc reversed or removed), polled in turn
            if c.a.order <= 4100 {
                let mut b = c.a.clone();
                let mut want_b = want.clone();
                if let Some(&(u, v)) = distinct.iter().next() {
                    b.arcs.retain(|&a| a != (u, v));
                    want_b[u] -= 1;
                    want_b[v] -= 1;
                }
                let h = AdjacencyList::build(&b);
                guarded(|| crate::props::c02::interleaved(name, g.degree_sequence(), &want, h.degree_sequence(), &want_b)).map_err(|p| format!("{name} panicked: {p}"))??;
            }
            Ok(())
        }
        "AdjacencyList::is_semicomplete" => {
            let g = AdjacencyList::build(&c.a);
            let got = guarded(|| g.is_semicomplete()).map_err(|p| format!("{name} panicked: {p}"))?;
            let want = reprs::model_of(&c.a).is_semicomplete();
            ensure!(got == want, "{name} = {got}, definition {want}");
            Ok(())
        }
        "AdjacencyList::union" => {
            let (ga, gb) = (AdjacencyList::build(&c.a), AdjacencyList::build(&c.b));
            let r = guarded(|| ga.union(&gb)).map_err(|p| format!("{name} panicked: {p}"))?;
            reprs::same(&r, &reprs::model_of(&c.a).union(&reprs::model_of(&c.b)), name)?;
            let r2 = guarded(|| gb.union(&ga)).map_err(|p| format!("{name} panicked: {p}"))?;
            ensure!(r == r2, "{name} is not commutative in this configuration");
            Ok(())
        }
        "AdjacencyMap::union" => {
            let (ma, mb) = (reprs::map_model_of(&c.ma), reprs::map_model_of(&c.mb));
            let (ga, gb) = (reprs::build_map(&c.ma), reprs::build_map(&c.mb));
            reprs::same(&ga, &ma, "building operand a through the public API")?;
            reprs::same(&gb, &mb, "building operand b through the public API")?;
            let r = guarded(|| ga.union(&gb)).map_err(|p| format!("{name} panicked: {p}"))?;
            reprs::same(&r, &ma.union(&mb), name)?;
            let r2 = guarded(|| gb.union(&ga)).map_err(|p| format!("{name} panicked: {p}"))?;
            ensure!(r == r2, "{name} is not commutative in this configuration");
            Ok(())
        }
        "AdjacencyMap::random_tournament" => {
            let n = c.a.order;
            let what = format!("{name}({n}, {})", c.seed);
            let r = guarded(|| AdjacencyMap::random_tournament(n, c.seed)).map_err(|p| format!("{what} panicked: {p}"))?;
            let m = valid_model(&r, n, &what)?;
            ensure!(m.is_tournament(), "{what} is not a tournament: {:?}", m.arcs());
            let again = AdjacencyMap::random_tournament(n, c.seed);
            ensure!(again == r, "{what}: two calls in the same configuration differ");
            Ok(())
        }
        _ => {
            let n = c.a.order;
            let what = format!("{name}({n}, {}, {})", c.p, c.seed);
            let r = guarded(|| AdjacencyMap::erdos_renyi(n, c.p, c.seed)).map_err(|p| format!("{what} panicked: {p}"))?;
            let m = valid_model(&r, n, &what)?;
            if c.p == 0.0 {
                ensure!(m.size() == 0, "{what} has arcs at p = 0");
            }
            if c.p == 1.0 {
                ensure!(m.is_complete(), "{what} is not complete at p = 1");
            }
            let again = AdjacencyMap::erdos_renyi(n, c.p, c.seed);
            ensure!(again == r, "{what}: two calls in the same configuration differ");
            Ok(())
        }
    }
}

fn map_on(vs: &[usize], arcs: &[(usize, usize)]) -> MapDg {
    MapDg {
        vertices: vs.to_vec(),
        arcs: arcs.iter().copied().filter(|(u, v)| vs.contains(u) && vs.contains(v)).collect(),
    }
}

/// Small fixed cases for the Miri leg (Miri owns the thread schedule and
/// reports data races even when the result happens to be right).
pub fn miri_cases() -> Vec<Case> {
    let mut out = vec![];
    let empty = MapDg { vertices: vec![0], arcs: vec![] };
    for n in [3_usize, 5, 7] {
        let ring: Vec<(usize, usize)> = (0..n)
            .map(|i| (i, (i + 1) % n))
            .chain((2..n).map(|i| (i, 0)))
            .collect::<BTreeSet<_>>()
            .into_iter()
            .collect();
        let (_, complete) = closed_form("complete", n, 0);
        let mut near = complete.clone();
        near.retain(|&e| e != (n - 2, n - 1) && e != (n - 1, n - 2));
        for op in 0..OPS.len() as u8 {
            let a = match OPS[op as usize] {
                "AdjacencyList::is_semicomplete" => Dg { order: n, arcs: if n == 5 { near.clone() } else { complete.clone() } },
                _ => Dg { order: n, arcs: ring.clone() },
            };
            out.push(Case {
                op,
                a,
                b: Dg { order: n - 1, arcs: vec![(0, 1), (1, 0)] },
                ma: map_on(&[0, 2, 5, 9, 11][..n.min(5)], &[(0, 2), (2, 5), (9, 11), (11, 0)]),
                mb: map_on(&[0, 2, 3, 9, 14][..n.min(5)], &[(2, 0), (3, 9), (0, 2), (14, 3)]),
                seed: 7 + n as u64,
                p: 0.5,
                cpus: 0,
                reps: 1,
            });
        }
    }
    // one larger case per threaded AdjacencyList operation (a shared-counter race needs
    // several arcs per worker)
    let n = 33;
    let (_, complete) = closed_form("complete", n, 0);
    for op in [0_u8, 2, 3, 4] {
        out.push(Case {
            op,
            a: Dg { order: n, arcs: complete.clone() },
            b: Dg { order: n - 1, arcs: vec![(0, 1), (1, 0)] },
            ma: empty.clone(),
            mb: empty.clone(),
            seed: 1,
            p: 0.5,
            cpus: 0,
            reps: 1,
        });
    }
    out
}

impl Prop for C17 {
    type Case = Case;
    const ID: &'static str = "C17";
    const NUM: u64 = 17;
    const RULE: &'static str = "(operation, inputs, k, repetitions): operation in {AdjacencyList::{complement, complete, degree_sequence, is_semicomplete, union}, AdjacencyMap::union, AdjacencyMap::{random_tournament, erdos_renyi}}; k in 1..=16 CPUs set with sched_setaffinity immediately before the call; row counts in the classes k-1, k, k+1, 2k+1, 3k-1, 5k+3 and free (up to 60 quick / 130 thorough); AdjacencyMap::union operands with key sets drawn from 0..64 so that equal keys fall on, before and after merge-path partition points; every case is executed 3 (quick) / 10 (thorough) times; the oracle is the single-threaded definition from the model, the same for every k and repetition; enum leg: AdjacencyList::complete(n) and complement(path(n)) for every n in 1..=64 at every k in 1..=16. A low-rate 'huge' leg adds digraphs of 200..3100 vertices with O(n) arcs (paths, circuits, stars, wheels, trees, one row of exactly 255/256/257 out-neighbours, arcs in the last rows, complete below 300). degree_sequence is also taken from two digraphs at once, the two iterators polled in turn. Seeds are uniform, 0..2 or within 17 of u64::MAX (per-thread seeds are derived by addition). Non-trivial = k >= 2 was in effect, row count > k and not a multiple of ceil(rows/k); distinct = distinct serialised case.";
    const ASSUMPTIONS: &'static [&'static str] = &[
        "natively only the CPU count and repetition vary the interleaving; the schedule itself is owned only in the Miri leg (thorough tier, see DESIGN.md)",
        "for the seeded AdjacencyMap generators only validity and repeatability within one configuration are asserted",
    ];

    fn legs(tier: Tier) -> Vec<Leg> {
        vec![
            Leg {
                name: "random",
                kind: LegKind::Random {
                    cases: tier.pick(2400, 12000),
                },
                workers: 16,
                build: Build::Normal,
            },
            Leg {
                name: "enum",
                kind: LegKind::Enumerated { count: 2 * 64 * 16 },
                workers: 16,
                build: Build::Normal,
            },
            Leg {
                name: "huge",
                kind: LegKind::Random {
                    cases: tier.pick(5, 40),
                },
                workers: 16,
                build: Build::Normal,
            },
            Leg {
                name: "huge-dense",
                kind: LegKind::Random {
                    cases: tier.pick(6, 50),
                },
                workers: 16,
                build: Build::Normal,
            },
        ]
    }

    fn strategy(leg: &str, tier: Tier) -> BoxedStrategy<Case> {
        if leg == "huge-dense" {
            // is_semicomplete on dense near misses (the early-exit flag is shared by the
            // workers) and degree_sequence on hub digraphs with tens of thousands of rows
            let empty = MapDg { vertices: vec![0], arcs: vec![] };
            let e2 = empty.clone();
            return prop_oneof![
                3 => (gen::dense_near_miss(), 2..=16_usize).prop_map(move |((a, _), cpus)| Case {
                    op: 3,
                    a,
                    b: Dg { order: 1, arcs: vec![] },
                    ma: empty.clone(),
                    mb: empty.clone(),
                    seed: 0,
                    p: 0.0,
                    cpus,
                    reps: 4,
                }),
                1 => (proptest::sample::select(vec![4100_usize, 8200, 20_000, 40_000]), 2..=16_usize, 8..=24_usize).prop_map(move |(n, cpus, hubs)| Case {
                    op: 2,
                    a: Dg { order: n, arcs: (hubs..n).flat_map(|v| (0..hubs).map(move |h| (v, h))).collect() },
                    b: Dg { order: 1, arcs: vec![] },
                    ma: e2.clone(),
                    mb: e2.clone(),
                    seed: 0,
                    p: 0.0,
                    cpus,
                    reps: 3,
                }),
            ]
            .boxed();
        }
        if leg == "huge" {
            // hundreds to thousands of rows per operation (complete() capped at 700 rows)
            return (0..OPS.len() as u8, gen::huge_dg(), gen::huge_dg(), 1..=16_usize, any::<u64>())
                .prop_map(|(op, (a, _), (b, _), cpus, seed)| {
                    let name = OPS[op as usize];
                    let mut a = a;
                    if name == "AdjacencyList::complete" || name.starts_with("AdjacencyMap::") {
                        a.order = a.order.min(700);
                        a.arcs.retain(|&(u, v)| u < a.order && v < a.order);
                    }
                    let to_map = |g: &Dg, stride: usize| MapDg {
                        vertices: (0..g.order.min(900)).map(|v| v * stride).collect(),
                        arcs: g.arcs.iter().filter(|&&(u, v)| u < 900 && v < 900).map(|&(u, v)| (u * stride, v * stride)).collect(),
                    };
                    let (ma, mb) = (to_map(&a, 2), to_map(&b, 3));
                    Case { op, a, b, ma, mb, seed, p: 0.01, cpus, reps: 1 }
                })
                .boxed();
        }
        let max: usize = tier.pick(60, 130);
        let reps = tier.pick(3, 10);
        (
            0..OPS.len() as u8,
            (gen::raw_dg(max), gen::raw_dg(max)),
            1..=16_usize,
            (any::<u8>(), any::<u8>(), any::<u8>()),
            (vec(any::<u16>(), 16), vec(any::<u16>(), 16)),
            (vec((any::<u16>(), any::<u16>()), 120), vec((any::<u16>(), any::<u16>()), 120)),
            (any::<u16>(), any::<u16>()),
            (prop_oneof![6 => any::<u64>(), 1 => (0..=17_u64).prop_map(|k| u64::MAX - k), 1 => 0..=2_u64], prop_oneof![1 => Just(0.0_f64), 1 => Just(1.0), 1 => Just(0.5), 5 => 0.0..=1.0_f64]),
        )
            .prop_map(move |(op, (ra, rb), cpus, (ca, cb, share), (ba, bb), (pa, pb), (la, lb), (seed, p))| {
                let mut ra = relative_order(ra, cpus, ca, max);
                let rb = relative_order(rb, cpus, cb, max);
                let name = OPS[op as usize];
                if name.contains("semicomplete") {
                    // mostly semicomplete or nearly so, otherwise the size
                    // shortcut answers before any thread runs
                    ra.family = [7, 8, 0][share as usize % 3]; // complete, tournament, uniform
                    ra.dens = 5 + (share as usize % 2);
                }
                let mut a = gen::build_dg(&ra);
                if name.contains("semicomplete") && share % 4 == 1 && a.order >= 3 {
                    // remove one pair entirely: a near miss found only by one thread
                    let (u, v) = gen::arc_of((la, lb), a.order);
                    a.arcs.retain(|&e| e != (u, v) && e != (v, u));
                }
                let b = gen::build_dg(&rb);
                let pool = [8, 24, 64][share as usize % 3];
                let ma = big_map(&ba, &pa, la, pool);
                let mut mb = big_map(&bb, &pb, lb, pool);
                if share % 2 == 0 {
                    // force many equal keys
                    for &v in ma.vertices.iter().step_by(2) {
                        if !mb.vertices.contains(&v) {
                            mb.vertices.push(v);
                        }
                    }
                    mb.vertices.sort_unstable();
                }
                // the shared early-exit flag of is_semicomplete is only wrong under particular
                // interleavings: near misses are repeated more often (the call is cheap)
                let reps = if name.contains("semicomplete") { reps * 6 } else { reps };
                Case { op, a, b, ma, mb, seed, p, cpus, reps }
            })
            .boxed()
    }

    fn enum_case(_leg: &str, tier: Tier, idx: u64) -> Option<Case> {
        let k = 1 + (idx % 16) as usize;
        let n = 1 + ((idx / 16) % 64) as usize;
        let which = idx / (16 * 64);
        let (_, arcs) = closed_form("path", n, 0);
        let empty = MapDg { vertices: vec![0], arcs: vec![] };
        Some(Case {
            op: if which == 0 { 1 } else { 0 },
            a: Dg { order: n, arcs },
            b: Dg { order: 1, arcs: vec![] },
            ma: empty.clone(),
            mb: empty,
            seed: 0,
            p: 0.0,
            cpus: k,
            reps: tier.pick(1, 3),
        })
    }

    fn shrink(c: &Case) -> Vec<Case> {
        let mut out = vec![];
        for (a, k) in gen::shrink_dg(&c.a) {
            if k.map_or(true, |k| k + 1 == c.a.order) {
                out.push(Case { a, ..c.clone() });
            }
        }
        for (b, k) in gen::shrink_dg(&c.b) {
            if k.map_or(true, |k| k + 1 == c.b.order) {
                out.push(Case { b, ..c.clone() });
            }
        }
        for ma in gen::shrink_map(&c.ma) {
            out.push(Case { ma, ..c.clone() });
        }
        for mb in gen::shrink_map(&c.mb) {
            out.push(Case { mb, ..c.clone() });
        }
        if c.cpus > 1 {
            out.push(Case { cpus: c.cpus - 1, ..c.clone() });
        }
        out
    }

    fn check(c: &Case, obs: &mut Obs) -> Verdict {
        let cpus = Cpus::new();
        let name = OPS[c.op as usize % OPS.len()];
        let mut seen_k = 0;
        for rep in 0..c.reps.max(1) {
            let (res, seen) = cpus.with(c.cpus, sys::rot() + rep, || once(c));
            seen_k = seen;
            res.map_err(|m| format!("[{} CPUs available, repetition {rep}] {m}", seen))?;
        }
        let rows = match name {
            "AdjacencyMap::union" => c.ma.vertices.len() + c.mb.vertices.len(),
            "AdjacencyList::union" => c.a.order.max(c.b.order),
            _ => c.a.order,
        };
        let chunk = rows.div_ceil(seen_k.max(1)).max(1);
        obs.label(format!("op={name}"));
        obs.label(format!("cpus-seen={seen_k}"));
        let class = if rows < seen_k {
            "rows < k"
        } else if rows == seen_k {
            "rows = k"
        } else if rows == seen_k + 1 {
            "rows = k+1"
        } else if rows > 4 * seen_k {
            "rows >> k"
        } else {
            "k+1 < rows <= 4k"
        };
        obs.label(class);
        if rows % chunk != 0 {
            obs.label("rows not a multiple of the chunk size");
        }
        if seen_k >= 2 && rows > seen_k && rows % chunk != 0 {
            obs.nontrivial();
        }
        Ok(())
    }
}
