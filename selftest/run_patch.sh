#!/bin/bash
# selftest/run_patch.sh <patch.diff> <ID> [<ID>...]   (tier from $TIER, default quick)
# Applies a patch to /repo, runs the named checks, restores /repo.  Prints one line per check.
set -u
PATCH=$(readlink -f "$1"); shift
cd /verif
if ! git -C /repo diff --quiet; then echo "refusing: /repo has uncommitted changes"; exit 3; fi
if ! git -C /repo apply --check "$PATCH" 2>/dev/null; then echo "patch does not apply: $PATCH"; exit 3; fi
git -C /repo apply "$PATCH"
trap 'git -C /repo checkout -- . ; git -C /repo clean -fdq -- src tests 2>/dev/null' EXIT
for ID in "$@"; do
  out=$(./check "$ID" "${TIER:-quick}" 2>&1); rc=$?
  v=$(echo "$out" | grep -c '^VIOLATION')
  reason=$(echo "$out" | grep -m1 'reason:' | cut -c1-220)
  echo "RESULT patch=$(basename $(dirname $PATCH))/$(basename $PATCH) check=$ID exit=$rc violations=$v $reason"
  if [ $rc -eq 1 ]; then
    f=$(echo "$out" | grep -m1 '^VIOLATION' | sed 's/.*replay=//')
    [ -n "${KEEP_REPLAY:-}" ] && cp "$f" "$KEEP_REPLAY" 2>/dev/null
  fi
done
