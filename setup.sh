#!/bin/bash
# MANIFEST.setup_cmd: build the harness (and its ASan twin) offline from files on disk.
set -eu
cd "$(dirname "$(readlink -f "$0")")"
export CARGO_NET_OFFLINE=true
mkdir -p work/logs evidence
( cd harness && cargo build --release --offline )
if [ -f harness/src/props/c13.rs ]; then
  ( cd harness && RUSTFLAGS="-Zsanitizer=address -Cdebug-assertions=on -Coverflow-checks=off" \
      cargo +nightly build --release --offline --target x86_64-unknown-linux-gnu \
      --target-dir "$(pwd)/work/target-asan" )
fi
echo "setup done"
