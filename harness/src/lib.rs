//! gv — generated-input verification harness for bsdrks/graaf (library part,
//! shared by the `gv` binary and the libFuzzer targets under /verif/fuzzing).
#![allow(dead_code, unused_imports)]

pub mod bytes;
pub mod gen;
pub mod model;
pub mod probe;
pub mod props;
pub mod reprs;
pub mod runner;
pub mod sys;
